#![no_main]
use libfuzzer_sys::fuzz_target;

#[global_allocator]
static ALLOC: fv::util::CountingAlloc = fv::util::CountingAlloc;

fuzz_target!(|data: &[u8]| {
    static INIT: std::sync::Once = std::sync::Once::new();
    INIT.call_once(fv::util::install_panic_hook);
    let out = fv::fuzzing::run_target("streamreader", data);
    if let Some(f) = out.fails.first() {
        // a plain abort-on-panic: libFuzzer saves the input as an artifact
        eprintln!("FV-ORACLE-FAIL {} :: {}", f.sig, f.msg);
        std::process::abort();
    }
});
