//! Mutant mode of the stream generator: forces fields of a valid frame's intermediate
//! representation to illegal or extreme values; checksums are recomputed on serialisation.

use crate::framegen::*;

#[derive(Clone, Debug)]
pub struct Mutant {
    pub class: &'static str,
    /// the property C05 names this class among the ones that have to be refused
    pub must_reject: bool,
    pub frame: usize,
}

pub const N_CLASSES: u64 = 43;

/// Re-serialises all frames after the (unchanged) metadata prefix.
pub fn reserialize(gs: &mut GenStream) {
    let mut bytes = gs.bytes[..gs.first_frame].to_vec();
    let mut frames = vec![];
    let mut s = 0u64;
    for ir in &gs.irs {
        let f = serialize_frame(ir);
        frames.push((bytes.len(), f.len(), s, ir.bs));
        bytes.extend_from_slice(&f);
        s += ir.bs as u64;
    }
    gs.bytes = bytes;
    gs.frames = frames;
}

fn first_res(s: &mut SubIR) -> Option<&mut ResIR> {
    match &mut s.body {
        SubBody::Fixed { res, .. } | SubBody::Lpc { res, .. } => Some(res),
        _ => None,
    }
}

fn patch_streaminfo(gs: &mut GenStream, f: impl FnOnce(&mut [u8])) {
    // STREAMINFO payload starts at byte 8
    f(&mut gs.bytes[8..8 + 34]);
}

/// Applies mutation class `class` (0..N_CLASSES) to frame `fi` of the stream.
/// Returns None when the class does not apply to this frame (caller picks another).
pub fn mutate(gs: &mut GenStream, ch: &mut dyn Chooser, class: u64, fi: usize) -> Option<Mutant> {
    let nframes = gs.irs.len();
    let params = gs.params.clone();
    let last = fi + 1 == nframes;
    let ir = &mut gs.irs[fi];
    let nsubs = ir.subs.len();
    let si = ch.below(nsubs as u64) as usize;
    let m = |class: &'static str, must_reject: bool| Some(Mutant { class, must_reject, frame: fi });
    let out = match class {
        0 => {
            ir.sync = (ch.below(0x3FFF) as u16) & 0x3FFF;
            if ir.sync == 0x3FFE {
                ir.sync = 0x3FFC;
            }
            m("bad-sync", true)
        }
        1 => {
            ir.reserved1 = 1;
            m("reserved-bit-after-sync", false)
        }
        2 => {
            ir.bs_code = 0;
            ir.bs_extra = None;
            m("blocksize-code-0000", true)
        }
        3 => {
            ir.rate_code = 15;
            ir.rate_extra = None;
            m("rate-code-1111", true)
        }
        4 => {
            ir.chan_code = 11 + ch.below(5) as u8;
            m("channel-code-reserved", true)
        }
        5 => {
            ir.bps_code = 3;
            m("depth-code-011", true)
        }
        6 => {
            ir.reserved2 = 1;
            m("reserved-bit-after-depth", false)
        }
        7 => {
            let pick = ch.below(6);
            if pick >= 3 {
                // well-formed lead byte of an n-byte form (n = 2..=7), one continuation byte not of the
                // form 10xxxxxx: 11xxxxxx (two out of three), 0xxxxxxx otherwise
                let n = 2 + ch.below(6) as usize;
                let lead: u8 = match n {
                    2 => 0xC0 | (2 + ch.below(30)) as u8,
                    3 => 0xE0 | ch.below(16) as u8,
                    4 => 0xF0 | ch.below(8) as u8,
                    5 => 0xF8 | ch.below(4) as u8,
                    6 => 0xFC | ch.below(2) as u8,
                    _ => 0xFE,
                };
                let bad = ch.below(n as u64 - 1) as usize;
                let mut raw = vec![lead];
                for i in 0..n - 1 {
                    let payload = ch.below(0x40) as u8;
                    raw.push(if i == bad { if pick < 5 { 0xC0 | payload } else { payload } } else { 0x80 | payload });
                }
                ir.number_raw = Some(raw);
                return Some(Mutant { class: "malformed-coded-number:bad-continuation", must_reject: true, frame: fi });
            }
            let lead = match pick {
                0 => 0x80 + ch.below(0x40) as u8,
                1 => 0xFF,
                _ => 0xFE,
            };
            let mut raw = vec![lead];
            if lead == 0xFE {
                // 7-byte form with a bad continuation byte somewhere
                let bad = ch.below(6) as usize;
                for i in 0..6 {
                    raw.push(if i == bad { 0x00 | ch.below(0x80) as u8 & 0x7F } else { 0x80 });
                }
                if raw[1 + bad] & 0xC0 == 0x80 {
                    raw[1 + bad] = 0x40;
                }
            }
            ir.number_raw = Some(raw);
            m("malformed-coded-number", true)
        }
        8 => {
            ir.number_len = 2 + ch.below(6) as u8;
            m("overlong-coded-number", false)
        }
        9 => {
            ir.bs_code = 7;
            ir.bs_extra = Some((16, 65535));
            m("blocksize-65536", true)
        }
        10 => {
            // a different, valid rate than STREAMINFO
            let mut c = 1 + ch.below(11) as u8;
            if RATE_TABLE[c as usize] == params.rate {
                c = if c == 11 { 1 } else { c + 1 };
            }
            ir.rate_code = c;
            ir.rate_extra = None;
            m("rate-differs-from-streaminfo", true)
        }
        11 => {
            let codes = [1u8, 2, 4, 5, 6, 7];
            let vals = [8u8, 12, 16, 20, 24, 32];
            let mut k = ch.below(6) as usize;
            if vals[k] == params.bps {
                k = (k + 1) % 6;
            }
            ir.bps_code = codes[k];
            m("depth-differs-from-streaminfo", true)
        }
        12 => {
            // different channel count (subframes are not adjusted: the frame is malformed anyway)
            let cur = if ir.chan_code < 8 { ir.chan_code + 1 } else { 2 };
            let mut n = 1 + ch.below(8) as u8;
            if n == cur {
                n = if n == 8 { 1 } else { n + 1 };
            }
            ir.chan_code = n - 1;
            m("channels-differ-from-streaminfo", true)
        }
        13 => {
            ir.crc8_xor = 1 + ch.below(255) as u8;
            m("wrong-crc8", true)
        }
        14 => {
            ir.crc16_xor = 1 + ch.below(65535) as u16;
            m("wrong-crc16", true)
        }
        15 => {
            ir.subs[si].pad_bit = 1;
            m("subframe-pad-bit", true)
        }
        16 => {
            let reserved: Vec<u8> = (2u8..8).chain(13..32).collect();
            ir.subs[si].type_code = reserved[ch.below(reserved.len() as u64) as usize];
            m("reserved-subframe-type", true)
        }
        17 => {
            let s = &mut ir.subs[si];
            let depth = s.eff_bits + s.wasted;
            s.wasted = depth + ch.below(4) as u32;
            m("wasted-bits>=depth", true)
        }
        18 => {
            let s = ir.subs.iter_mut().find(|s| matches!(s.body, SubBody::Lpc { .. }))?;
            if let SubBody::Lpc { prec_code, .. } = &mut s.body {
                *prec_code = 15;
            }
            m("lpc-precision-1111", true)
        }
        19 => {
            let s = ir.subs.iter_mut().find(|s| matches!(s.body, SubBody::Lpc { .. }))?;
            if let SubBody::Lpc { shift_raw, .. } = &mut s.body {
                *shift_raw = 16 + ch.below(16) as u8;
            }
            m("lpc-negative-shift", true)
        }
        20 => {
            // predictor order > block size: only type code changes (needs a small block)
            if ir.bs > 32 {
                return None;
            }
            let s = &mut ir.subs[si];
            let want = ir.bs as u8 + 1 + ch.below(3) as u8;
            if want <= 4 {
                s.type_code = 8 + want;
            } else if want <= 32 {
                s.type_code = 31 + want;
            } else {
                return None;
            }
            m("order>blocksize", true)
        }
        21 => {
            let s = ir.subs.iter_mut().find(|s| matches!(s.body, SubBody::Fixed { .. } | SubBody::Lpc { .. }))?;
            first_res(s)?.method = 2 + ch.below(2) as u8;
            m("residual-method-reserved", true)
        }
        22 => {
            // raw partition order change, data untouched
            let s = ir.subs.iter_mut().find(|s| matches!(s.body, SubBody::Fixed { .. } | SubBody::Lpc { .. }))?;
            let r = first_res(s)?;
            let old = r.part_order;
            let mut n = ch.below(16) as u8;
            if n == old {
                n = (n + 1) % 16;
            }
            r.part_order = n;
            m("partition-order-raw-change", false)
        }
        23 => {
            // partition order that does not divide the block / leaves no room for the warm-up,
            // with partitions laid out the way a naive reader derives them
            let bs = ir.bs as usize;
            let s = ir.subs.iter_mut().find(|s| matches!(s.body, SubBody::Fixed { .. } | SubBody::Lpc { .. }))?;
            let order = match &s.body {
                SubBody::Fixed { warm, .. } | SubBody::Lpc { warm, .. } => warm.len(),
                _ => 0,
            };
            let r = first_res(s)?;
            let all: Vec<i64> = r.parts.iter().flat_map(|p| p.values.iter().copied()).collect();
            // illegal orders for this block
            let illegal: Vec<u32> = (0..16u32).filter(|po| bs % (1usize << po) != 0 || (bs >> po) <= order).collect();
            if illegal.is_empty() {
                return None;
            }
            let po = illegal[ch.below(illegal.len() as u64) as usize];
            let nparts = 1usize << po;
            if nparts > 4096 && !ch.chance(1, 8) {
                return None;
            }
            let plen = bs >> po;
            let param = r.parts.first().map(|p| p.param).unwrap_or(0);
            let esc = r.parts.first().and_then(|p| p.escape);
            let mut parts = vec![];
            let mut off = 0usize;
            for p in 0..nparts {
                let n = if p == 0 { plen.saturating_sub(order) } else { plen };
                let n = n.min(all.len() - off.min(all.len()));
                let vals = all[off.min(all.len())..(off + n).min(all.len())].to_vec();
                off += n;
                // keep the size bounded: escapes get a wide field and clamped values, Rice
                // partitions a parameter large enough for their values
                let kmax: u32 = if r.method & 1 == 0 { 14 } else { 30 };
                let maxzz = vals.iter().map(|v| if *v < 0 { (((-(*v + 1)) as u64) << 1) | 1 } else { (*v as u64) << 1 }).max().unwrap_or(0);
                let mut k = param as u32;
                while k < kmax && (maxzz >> k) > MAX_UNARY {
                    k += 1;
                }
                let (param, escape) = match esc {
                    Some(_) => (param, Some(31u8)),
                    None if (maxzz >> k) > MAX_UNARY => (if r.method & 1 == 0 { 15 } else { 31 }, Some(31u8)),
                    None => (k as u8, None),
                };
                let vals = if escape.is_some() { vals.iter().map(|v| (*v).clamp(-(1 << 29), 1 << 29)).collect() } else { vals };
                parts.push(PartIR { param, escape, values: vals });
            }
            r.part_order = po as u8;
            r.parts = parts;
            m("partition-order-illegal-consistent", true)
        }
        24 => {
            // escape width 31 everywhere (values clamped): extreme but legal
            let s = ir.subs.iter_mut().find(|s| matches!(s.body, SubBody::Fixed { .. } | SubBody::Lpc { .. }))?;
            let r = first_res(s)?;
            for p in r.parts.iter_mut() {
                p.escape = Some(31);
                p.param = if r.method & 1 == 0 { 15 } else { 31 };
            }
            m("escape-width-31", false)
        }
        25 => {
            // a huge unary run
            let s = ir.subs.iter_mut().find(|s| matches!(s.body, SubBody::Fixed { .. } | SubBody::Lpc { .. }))?;
            let r = first_res(s)?;
            let p = r.parts.iter_mut().find(|p| p.escape.is_none() && !p.values.is_empty())?;
            // unary part of the first value becomes 2^(k+1) zero bits; the other values keep
            // their parameter so the frame stays small
            let k = 8 + ch.below(9) as u32;
            p.values[0] = 1i64 << (k + p.param as u32).min(50);
            m("huge-unary-run", false)
        }
        26 => {
            ir.pad_fill = 0xFF;
            m("nonzero-padding", false)
        }
        27 => {
            // residual extremes through escapes: values at the 31-bit rails
            let s = ir.subs.iter_mut().find(|s| matches!(s.body, SubBody::Fixed { .. } | SubBody::Lpc { .. }))?;
            let r = first_res(s)?;
            for p in r.parts.iter_mut() {
                p.escape = Some(31);
                p.param = if r.method & 1 == 0 { 15 } else { 31 };
                for (i, v) in p.values.iter_mut().enumerate() {
                    *v = if i % 2 == 0 { (1 << 30) - 1 } else { -(1 << 30) };
                }
            }
            m("residual-extremes", false)
        }
        28 => {
            // extreme LPC: max coefficients, shift 0, warm-up at the rails
            let s = ir.subs.iter_mut().find(|s| matches!(s.body, SubBody::Lpc { .. }))?;
            let eff = s.eff_bits;
            if let SubBody::Lpc { warm, coefs, coef_bits, shift_raw, .. } = &mut s.body {
                *shift_raw = 0;
                for c in coefs.iter_mut() {
                    *c = (1i64 << (*coef_bits - 1)) - 1;
                }
                for w in warm.iter_mut() {
                    *w = (1i64 << (eff - 1)) - 1;
                }
            }
            m("lpc-extreme-accumulator", false)
        }
        29 => {
            // rice parameter at the top of the range with large values
            let s = ir.subs.iter_mut().find(|s| matches!(s.body, SubBody::Fixed { .. } | SubBody::Lpc { .. }))?;
            let r = first_res(s)?;
            r.method = 1;
            for p in r.parts.iter_mut() {
                p.escape = None;
                p.param = 30;
                for (i, v) in p.values.iter_mut().enumerate() {
                    *v = if i % 2 == 0 { i32::MAX as i64 } else { i32::MIN as i64 + 1 };
                }
            }
            m("rice-param-30-extremes", false)
        }
        30 => {
            // residual of exactly -2^31 (forbidden value) coded with Rice parameter 30/14
            let s = ir.subs.iter_mut().find(|s| matches!(s.body, SubBody::Fixed { .. } | SubBody::Lpc { .. }))?;
            let r = first_res(s)?;
            r.method = 1;
            let p = r.parts.iter_mut().find(|p| !p.values.is_empty())?;
            p.escape = None;
            p.param = 30;
            p.values[0] = i32::MIN as i64;
            m("residual-most-negative", false)
        }
        31 => {
            // STREAMINFO: maximum block size smaller than this frame
            let bs = ir.bs;
            if bs <= 16 {
                return None;
            }
            let nb = (bs - 1) as u16;
            patch_streaminfo(gs, |si| {
                si[2] = (nb >> 8) as u8;
                si[3] = nb as u8;
                let minb = u16::from_be_bytes([si[0], si[1]]).min(nb);
                si[0] = (minb >> 8) as u8;
                si[1] = minb as u8;
            });
            return Some(Mutant { class: "blocksize>streaminfo-max", must_reject: true, frame: fi });
        }
        32 => {
            // declared total shorter than the stream: some frame runs past it
            if !gs.total_known {
                return None;
            }
            let total: u64 = gs.irs.iter().map(|i| i.bs as u64).sum();
            let lastbs = gs.irs.last().map(|i| i.bs as u64).unwrap_or(1);
            if total < 2 || lastbs < 2 {
                return None;
            }
            let cut = 1 + ch.below(lastbs - 1);
            let nt = total - cut;
            patch_streaminfo(gs, |si| {
                si[13] = (si[13] & 0xF0) | ((nt >> 32) as u8 & 0x0F);
                si[14] = (nt >> 24) as u8;
                si[15] = (nt >> 16) as u8;
                si[16] = (nt >> 8) as u8;
                si[17] = nt as u8;
            });
            return Some(Mutant { class: "frame-runs-past-declared-total", must_reject: true, frame: nframes - 1 });
        }
        33 => {
            // a non-final block of at most 14 samples in a stream with a declared total
            if last || !gs.total_known || ir.bs <= 14 {
                return None;
            }
            // shrink this frame to k samples: rebuild as verbatim subframes
            let k = 1 + ch.below(14) as usize;
            for s in ir.subs.iter_mut() {
                let eff = s.eff_bits;
                let vals: Vec<i64> = (0..k).map(|i| (i as i64 % 3) - 1).collect();
                let lim = 1i64 << (eff - 1).min(40);
                *s = SubIR {
                    pad_bit: 0,
                    type_code: 1,
                    wasted: s.wasted,
                    eff_bits: eff,
                    body: SubBody::Verbatim(vals.iter().map(|v| (*v).clamp(-lim, lim - 1)).collect()),
                };
            }
            let removed = ir.bs as u64 - k as u64;
            ir.bs = k as u32;
            ir.bs_code = 6;
            ir.bs_extra = Some((8, (k - 1) as u64));
            // keep the declared total consistent with the new sum so that only the short-block
            // rule is violated
            let total: u64 = gs.irs.iter().map(|i| i.bs as u64).sum();
            let _ = removed;
            patch_streaminfo(gs, |si| {
                si[13] = (si[13] & 0xF0) | ((total >> 32) as u8 & 0x0F);
                si[14] = (total >> 24) as u8;
                si[15] = (total >> 16) as u8;
                si[16] = (total >> 8) as u8;
                si[17] = total as u8;
            });
            return Some(Mutant { class: "short-nonfinal-block", must_reject: true, frame: fi });
        }
        34 => {
            // verbatim / constant sample wider than the depth allows cannot be expressed; instead
            // flip the blocking-strategy bit mid-stream
            if fi == 0 {
                return None;
            }
            ir.variable = !ir.variable;
            m("blocking-strategy-change", false)
        }
        35 => {
            // frame number out of sequence
            ir.number = ir.number.wrapping_add(1 + ch.below(1000)) & ((1 << 36) - 1);
            m("frame-number-out-of-sequence", false)
        }
        36 => {
            // escape width 0 with non-zero-looking data (no data bits are written): legal syntax
            let s = ir.subs.iter_mut().find(|s| matches!(s.body, SubBody::Fixed { .. } | SubBody::Lpc { .. }))?;
            let r = first_res(s)?;
            let mth = r.method;
            let p = r.parts.iter_mut().next()?;
            p.escape = Some(0);
            p.param = if mth & 1 == 0 { 15 } else { 31 };
            for v in p.values.iter_mut() {
                *v = 0;
            }
            m("escape-width-0", false)
        }
        38 => {
            // STREAMINFO announces another channel count than the frames carry (the frames keep
            // their channel assignment, including left/side, side/right and mid/side)
            let cur = params.channels;
            let mut n = 1 + ch.below(8) as u8;
            if n == cur {
                n = if n == 8 { 1 } else { n + 1 };
            }
            let stereo_decorrelated = ir.chan_code >= 8;
            patch_streaminfo(gs, |si| {
                // channels - 1 lives in bits 3..1 of byte 12
                si[12] = (si[12] & 0xF1) | ((n - 1) << 1);
            });
            return Some(Mutant {
                class: if stereo_decorrelated { "streaminfo-channels-differ:decorrelated-frame" } else { "streaminfo-channels-differ" },
                must_reject: true,
                frame: 0,
            });
        }
        39 => {
            // STREAMINFO announces another bit depth while the frame states its own explicitly
            if ir.bps_code == 0 {
                return None;
            }
            let cur = params.bps;
            let mut n = 4 + ch.below(29) as u8;
            if n == cur {
                n = if n == 32 { 4 } else { n + 1 };
            }
            patch_streaminfo(gs, |si| {
                // bits-per-sample - 1: low bit of byte 12 and high nibble of byte 13
                let v = n - 1;
                si[12] = (si[12] & 0xFE) | (v >> 4);
                si[13] = (si[13] & 0x0F) | ((v & 0x0F) << 4);
            });
            return Some(Mutant { class: "streaminfo-depth-differs", must_reject: true, frame: fi });
        }
        40 => {
            // STREAMINFO announces another sample rate while the frame states its own explicitly
            if ir.rate_code == 0 {
                return None;
            }
            let nr = (params.rate + 1 + ch.below(1000) as u32) & 0xFFFFF;
            if nr == params.rate {
                return None;
            }
            patch_streaminfo(gs, |si| {
                si[10] = (nr >> 12) as u8;
                si[11] = (nr >> 4) as u8;
                si[12] = (si[12] & 0x0F) | (((nr & 0xF) as u8) << 4);
            });
            return Some(Mutant { class: "streaminfo-rate-differs", must_reject: true, frame: fi });
        }
        41 => {
            // the 16-bit block-size field says 65536 (illegal) while the frame really holds 65535
            // samples per channel and STREAMINFO allows 65535: only the field value itself is wrong
            if nframes != 1 {
                return None;
            }
            for s in ir.subs.iter_mut() {
                s.type_code = 0;
                s.body = SubBody::Constant(-(ch.below(2) as i64));
            }
            ir.bs = 65535;
            ir.bs_code = 7;
            ir.bs_extra = Some((16, 65535));
            patch_streaminfo(gs, |si| {
                si[0] = 0xFF;
                si[1] = 0xFF;
                si[2] = 0xFF;
                si[3] = 0xFF;
                // frame sizes, total and MD5 unknown
                for b in &mut si[4..10] {
                    *b = 0;
                }
                si[13] &= 0xF0;
                for b in &mut si[14..34] {
                    *b = 0;
                }
            });
            return Some(Mutant { class: "blocksize-field-65536-on-65535-sample-frame", must_reject: true, frame: fi });
        }
        42 => {
            // SEEKTABLE point with an extreme byte offset / sample number / length (the frames stay valid;
            // only seeking is affected). Needs a stream that carries a seek table.
            let mut pos = 4usize;
            let mut found = None;
            while pos + 4 <= gs.first_frame {
                let ty = gs.bytes[pos] & 0x7F;
                let len = ((gs.bytes[pos + 1] as usize) << 16) | ((gs.bytes[pos + 2] as usize) << 8) | gs.bytes[pos + 3] as usize;
                if ty == 3 && len >= 18 {
                    found = Some((pos + 4, len / 18));
                    break;
                }
                pos += 4 + len;
            }
            let (at, npoints) = found?;
            let k = ch.below(npoints as u64) as usize;
            let base = at + 18 * k;
            let extreme = [u64::MAX, u64::MAX - 1, u64::MAX - 41, 1 << 63, (1 << 63) - 1, u64::MAX >> 1, 1 << 40][ch.below(7) as usize];
            match ch.below(4) {
                0 | 1 => gs.bytes[base + 8..base + 16].copy_from_slice(&extreme.to_be_bytes()),
                2 => {
                    // sample number: keep it selectable (small) but wrong, or extreme
                    let v = if ch.below(2) == 0 { ch.below(3) } else { extreme };
                    gs.bytes[base..base + 8].copy_from_slice(&v.to_be_bytes());
                }
                _ => gs.bytes[base + 16..base + 18].copy_from_slice(&[0xFF, 0xFF]),
            }
            return Some(Mutant { class: "seektable-point-extreme", must_reject: false, frame: fi });
        }
        _ => {
            // wasted bits at the maximum legal value with data at the rails
            let s = &mut ir.subs[si];
            let depth = s.eff_bits + s.wasted;
            if depth < 2 {
                return None;
            }
            s.wasted = depth - 1;
            s.eff_bits = 1;
            s.type_code = 1;
            let n = ir.bs as usize;
            s.body = SubBody::Verbatim((0..n).map(|i| -((i % 2) as i64)).collect());
            m("wasted-bits-maximal", false)
        }
    };
    out
}
