//! PCM generator: recipes (small, shrinkable, hashable) expanded deterministically to samples.

use proptest::prelude::*;
use serde::{Deserialize, Serialize};

#[derive(Serialize, Deserialize, Clone, Debug, Hash, PartialEq, Eq)]
pub struct Pcm {
    pub channels: u8,
    pub bps: u8,
    pub rate: u32,
    /// per channel, equal lengths
    pub data: Vec<Vec<i32>>,
}

impl Pcm {
    pub fn frames(&self) -> usize {
        self.data.first().map(|c| c.len()).unwrap_or(0)
    }
    pub fn interleaved(&self) -> Vec<i32> {
        let n = self.frames();
        let mut v = Vec::with_capacity(n * self.data.len());
        for i in 0..n {
            for c in &self.data {
                v.push(c[i]);
            }
        }
        v
    }
    pub fn bytes_per_sample(&self) -> usize {
        (self.bps as usize).div_ceil(8)
    }
    pub fn to_bytes(&self, big_endian: bool) -> Vec<u8> {
        samples_to_bytes(&self.interleaved(), self.bytes_per_sample(), big_endian)
    }
    pub fn min(&self) -> i32 {
        min_of(self.bps)
    }
    pub fn max(&self) -> i32 {
        max_of(self.bps)
    }
    pub fn fits(&self) -> bool {
        let (lo, hi) = (self.min(), self.max());
        self.data.iter().all(|c| c.iter().all(|s| *s >= lo && *s <= hi))
    }
    pub fn truncate(&mut self, frames: usize) {
        for c in self.data.iter_mut() {
            c.truncate(frames);
        }
    }
    pub fn md5(&self) -> [u8; 16] {
        let mut ctx = md5::Context::new();
        ctx.consume(self.to_bytes(false));
        ctx.finalize().0
    }
}

pub fn min_of(bps: u8) -> i32 {
    if bps >= 32 { i32::MIN } else { -(1i32 << (bps - 1)) }
}
pub fn max_of(bps: u8) -> i32 {
    if bps >= 32 { i32::MAX } else { (1i32 << (bps - 1)) - 1 }
}

pub fn samples_to_bytes(s: &[i32], bytes: usize, big_endian: bool) -> Vec<u8> {
    let mut out = Vec::with_capacity(s.len() * bytes);
    for v in s {
        let le = v.to_le_bytes();
        if big_endian {
            for i in (0..bytes).rev() {
                out.push(le[i]);
            }
        } else {
            out.extend_from_slice(&le[..bytes]);
        }
    }
    out
}

pub fn bytes_to_samples(b: &[u8], bytes: usize, big_endian: bool) -> Vec<i32> {
    b.chunks_exact(bytes)
        .map(|c| {
            let mut v: i32 = 0;
            if big_endian {
                for x in c {
                    v = (v << 8) | *x as i32;
                }
            } else {
                for x in c.iter().rev() {
                    v = (v << 8) | *x as i32;
                }
            }
            let sh = 32 - 8 * bytes as u32;
            (v << sh) >> sh
        })
        .collect()
}

pub fn deinterleave(s: &[i32], channels: usize) -> Vec<Vec<i32>> {
    let mut out = vec![Vec::with_capacity(s.len() / channels.max(1)); channels];
    for (i, v) in s.iter().enumerate() {
        out[i % channels].push(*v);
    }
    out
}

// ---------------------------------------------------------------------------------------------

#[derive(Clone)]
pub struct Rng(pub u64);
impl Rng {
    pub fn next(&mut self) -> u64 {
        self.0 = self.0.wrapping_add(0x9E3779B97F4A7C15);
        let mut z = self.0;
        z = (z ^ (z >> 30)).wrapping_mul(0xBF58476D1CE4E5B9);
        z = (z ^ (z >> 27)).wrapping_mul(0x94D049BB133111EB);
        z ^ (z >> 31)
    }
    pub fn below(&mut self, n: u64) -> u64 {
        if n == 0 { 0 } else { self.next() % n }
    }
    /// uniform in [-(2^bits), 2^bits - 1]; bits may be 0 (=> {-1,0})
    pub fn signed(&mut self, bits: u32) -> i64 {
        let span = 1u64 << (bits + 1).min(40);
        (self.next() % span) as i64 - (1i64 << bits.min(39))
    }
    pub fn f(&mut self) -> f64 {
        (self.next() >> 11) as f64 / (1u64 << 53) as f64
    }
}

#[derive(Serialize, Deserialize, Clone, Debug, Hash, PartialEq, Eq)]
pub enum Kind {
    /// white noise with amplitude `amp` bits (0..=bps-1)
    Noise { amp: u8 },
    /// alternating extremes, `run` samples per half-period
    Square { run: u16 },
    /// constant: 0 zero, 1 min, 2 max, 3 random
    Const { which: u8 },
    /// sum of `n` sines of amplitude `amp` bits + `noise` bits of noise
    Sines { n: u8, amp: u8, noise: u8 },
    /// polynomial ramp of the given degree (0..=4) + noise bits; makes FIXED orders optimal
    Poly { degree: u8, noise: u8 },
    /// autoregressive resonators (make high LPC orders pay off)
    Ar { poles: u8, amp: u8 },
    /// silence with `count` impulses at the extremes
    Impulses { count: u8 },
    /// tiny residuals with rare huge outliers and per-partition level changes
    RiceHostile { small: u8, outlier_every: u16 },
    /// step function with `steps` levels
    Steps { steps: u8 },
    /// explicit small samples (shrinks well)
    Raw { v: Vec<i32> },
    /// up to 24 partials with short periods (2..64 samples), each with its own slow decay, plus
    /// `noise` bits of noise: music-like material on which high LPC orders pay off
    Tonal { partials: u8, amp: u8, noise: u8 },
}

#[derive(Serialize, Deserialize, Clone, Debug, Hash, PartialEq, Eq)]
pub struct ChanRecipe {
    pub kind: Kind,
    /// wasted low bits forced to zero (0..bps-1)
    pub wasted: u8,
    /// relation to channel 0 for channels >= 1: 0 independent, 1 copy, 2 negated, 3 copy + 2-bit noise
    pub relation: u8,
}

#[derive(Serialize, Deserialize, Clone, Debug, Hash, PartialEq, Eq)]
pub struct Recipe {
    pub bps: u8,
    pub rate: u32,
    pub frames: u32,
    pub seed: u64,
    pub chans: Vec<ChanRecipe>,
    /// if > 0, switch every channel to the next kind in `chans` (rotated) every `seg` frames
    pub seg: u32,
    /// if > 0 and there are >= 2 channels: channel 0 and 1 as generated are taken as mid and side,
    /// the side is scaled down by `ms_mix - 1` bits, and left = mid + side, right = mid - side
    #[serde(default)]
    pub ms_mix: u8,
}

fn clampi(v: i64, bps: u8) -> i32 {
    v.clamp(min_of(bps) as i64, max_of(bps) as i64) as i32
}

fn gen_kind(kind: &Kind, bps: u8, n: usize, rng: &mut Rng, out: &mut Vec<i32>) {
    let full = bps as u32 - 1; // magnitude bits
    match kind {
        Kind::Noise { amp } => {
            let a = (*amp as u32).min(full);
            for _ in 0..n {
                out.push(clampi(rng.signed(a), bps));
            }
        }
        Kind::Square { run } => {
            let run = (*run).max(1) as usize;
            for i in 0..n {
                out.push(if (i / run) % 2 == 0 { min_of(bps) } else { max_of(bps) });
            }
        }
        Kind::Const { which } => {
            let v = match which % 4 {
                0 => 0,
                1 => min_of(bps),
                2 => max_of(bps),
                _ => clampi(rng.signed(full), bps),
            };
            out.extend(std::iter::repeat_n(v, n));
        }
        Kind::Sines { n: k, amp, noise } => {
            let a = (1u64 << (*amp as u32).min(full)) as f64 - 1.0;
            let k = (*k).clamp(1, 4);
            let ps: Vec<(f64, f64)> = (0..k).map(|_| (3.0 + rng.f() * 400.0, rng.f() * 6.28)).collect();
            for i in 0..n {
                let mut s = 0.0;
                for (p, ph) in &ps {
                    s += (i as f64 * 6.283185307179586 / p + ph).sin();
                }
                let v = (s / k as f64 * a) as i64 + if *noise > 0 { rng.signed((*noise as u32 - 1).min(full)) } else { 0 };
                out.push(clampi(v, bps));
            }
        }
        Kind::Poly { degree, noise } => {
            // integrate small random constants `degree` times; restart when close to the rails
            let d = (*degree).min(4) as usize;
            let mut acc = [0i64; 5];
            acc[d] = rng.signed(2).max(1);
            let lim = (1i64 << full) / 2;
            for _ in 0..n {
                for j in (0..d).rev() {
                    acc[j] += acc[j + 1];
                }
                if acc[0].abs() > lim {
                    acc = [0; 5];
                    acc[d] = -rng.signed(2).max(1);
                }
                let v = acc[0] + if *noise > 0 { rng.signed((*noise as u32 - 1).min(full)) } else { 0 };
                out.push(clampi(v, bps));
            }
        }
        Kind::Ar { poles, amp } => {
            let k = (*poles).clamp(1, 16) as usize;
            let a = (1u64 << (*amp as u32).min(full)) as f64 * 0.02;
            let mut st = vec![(0.0f64, 0.0f64); k];
            let par: Vec<(f64, f64)> = (0..k)
                .map(|_| {
                    let r = 0.9 + rng.f() * 0.099;
                    let th = 0.05 + rng.f() * 3.0;
                    (2.0 * r * th.cos(), -r * r)
                })
                .collect();
            for _ in 0..n {
                let mut x = (rng.f() - 0.5) * a;
                for (j, (c1, c2)) in par.iter().enumerate() {
                    let y = x + c1 * st[j].0 + c2 * st[j].1;
                    st[j].1 = st[j].0;
                    st[j].0 = y;
                    x = y * 0.5;
                }
                out.push(clampi(x as i64, bps));
            }
        }
        Kind::Impulses { count } => {
            let start = out.len();
            out.extend(std::iter::repeat_n(0, n));
            if n > 0 {
                for j in 0..(*count as usize) {
                    let p = rng.below(n as u64) as usize;
                    out[start + p] = if j % 2 == 0 { min_of(bps) } else { max_of(bps) };
                }
            }
        }
        Kind::RiceHostile { small, outlier_every } => {
            let every = (*outlier_every).max(2) as u64;
            let mut level = (*small as u32).min(full);
            for i in 0..n {
                if i % 37 == 36 {
                    level = rng.below(full as u64 + 1) as u32 / 2;
                }
                let v = if rng.below(every) == 0 { rng.signed(full) } else { rng.signed(level) };
                out.push(clampi(v, bps));
            }
        }
        Kind::Steps { steps } => {
            let k = (*steps).max(1) as usize;
            let seglen = (n / k).max(1);
            let mut v = clampi(rng.signed(full), bps);
            for i in 0..n {
                if i % seglen == 0 {
                    v = clampi(rng.signed(full), bps);
                }
                out.push(v);
            }
        }
        Kind::Raw { v } => {
            for i in 0..n {
                out.push(if v.is_empty() { 0 } else { clampi(v[i % v.len()] as i64, bps) });
            }
        }
        Kind::Tonal { partials, amp, noise } => {
            let a = (1u64 << (*amp as u32).min(full)) as f64 - 1.0;
            let k = (*partials).clamp(1, 24) as usize;
            // (period, phase, weight, decay per sample)
            let ps: Vec<(f64, f64, f64, f64)> =
                (0..k).map(|_| (2.0 + rng.f() * 62.0, rng.f() * 6.28, 0.2 + rng.f(), 1.0 - rng.f() * 0.002)).collect();
            let wsum: f64 = ps.iter().map(|p| p.2).sum();
            let mut env: Vec<f64> = vec![1.0; k];
            for i in 0..n {
                let mut s = 0.0;
                for (j, (p, ph, w, d)) in ps.iter().enumerate() {
                    s += w * env[j] * (i as f64 * 6.283185307179586 / p + ph).sin();
                    env[j] *= d;
                }
                let v = (s / wsum * a) as i64 + if *noise > 0 { rng.signed((*noise as u32 - 1).min(full)) } else { 0 };
                out.push(clampi(v, bps));
            }
        }
    }
}

impl Recipe {
    pub fn expand(&self) -> Pcm {
        let n = self.frames as usize;
        let bps = self.bps.clamp(1, 32);
        let nch = self.chans.len().clamp(1, 8);
        let mut rng = Rng(self.seed);
        let mut data: Vec<Vec<i32>> = Vec::with_capacity(nch);
        for c in 0..nch {
            let r = &self.chans[c];
            let mut ch = Vec::with_capacity(n);
            if c > 0 && r.relation % 4 != 0 {
                let base = &data[0];
                for v in base.iter() {
                    let x = *v as i64;
                    let y = match r.relation % 4 {
                        1 => x,
                        2 => -x,
                        _ => x + rng.signed(1),
                    };
                    ch.push(clampi(y, bps));
                }
            } else if self.seg > 0 && n > 0 {
                let seg = self.seg as usize;
                let mut k = c;
                let mut done = 0;
                while done < n {
                    let m = seg.min(n - done);
                    gen_kind(&self.chans[k % nch].kind, bps, m, &mut rng, &mut ch);
                    done += m;
                    k += 1;
                }
            } else {
                gen_kind(&r.kind, bps, n, &mut rng, &mut ch);
            }
            let w = (r.wasted as u32).min(bps as u32 - 1);
            if w > 0 {
                for v in ch.iter_mut() {
                    *v = ((*v as i64 >> w) << w) as i32;
                }
            }
            data.push(ch);
        }
        if self.ms_mix > 0 && nch >= 2 {
            let sh = (self.ms_mix - 1).min(31) as u32;
            for i in 0..n {
                let m = data[0][i] as i64;
                let sd = (data[1][i] as i64) >> sh;
                data[0][i] = clampi(m + sd, bps);
                data[1][i] = clampi(m - sd, bps);
            }
        }
        Pcm { channels: nch as u8, bps, rate: self.rate, data }
    }
}

pub const RATES: &[u32] = &[
    0, 1, 7999, 8000, 8001, 16000, 22050, 24000, 32000, 44100, 48000, 88200, 96000, 176400, 192000, 254000, 255000,
    256000, 65534, 65535, 65536, 655340, 655350, 655360, 1048575, 11025, 12345, 100000, 384000,
];

pub fn rate_strategy() -> BoxedStrategy<u32> {
    prop_oneof![
        6 => proptest::sample::select(RATES),
        1 => 0u32..(1 << 20),
        2 => Just(44100u32),
    ]
    .boxed()
}

pub fn bps_strategy() -> BoxedStrategy<u8> {
    prop_oneof![
        5 => proptest::sample::select(&[8u8, 12, 16, 20, 24, 32][..]),
        3 => 4u8..=32,
        1 => 1u8..=3,
        1 => proptest::sample::select(&[17u8, 25, 31, 13, 9][..]),
    ]
    .boxed()
}

pub fn kind_strategy(bps: u8) -> BoxedStrategy<Kind> {
    let full = bps - 1;
    prop_oneof![
        4 => (0..=full).prop_map(|amp| Kind::Noise { amp }),
        1 => Just(Kind::Noise { amp: full }),
        1 => (1u16..40).prop_map(|run| Kind::Square { run }),
        2 => (0u8..4).prop_map(|which| Kind::Const { which }),
        3 => (1u8..4, 0..=full, 0u8..4).prop_map(|(n, amp, noise)| Kind::Sines { n, amp, noise }),
        3 => (0u8..=4, 0u8..4).prop_map(|(degree, noise)| Kind::Poly { degree, noise }),
        2 => (1u8..=16, 0..=full).prop_map(|(poles, amp)| Kind::Ar { poles, amp }),
        2 => (0u8..6).prop_map(|count| Kind::Impulses { count }),
        2 => (0u8..4, 2u16..64).prop_map(|(small, outlier_every)| Kind::RiceHostile { small, outlier_every }),
        1 => (1u8..6).prop_map(|steps| Kind::Steps { steps }),
        2 => proptest::collection::vec(-4i32..=4, 1..12).prop_map(|v| Kind::Raw { v }),
    ]
    .boxed()
}

pub fn chan_strategy(bps: u8) -> BoxedStrategy<ChanRecipe> {
    (
        kind_strategy(bps),
        prop_oneof![6 => Just(0u8), 2 => 0u8..bps.min(31).max(1), 1 => Just(bps - 1)],
        prop_oneof![5 => Just(0u8), 3 => 1u8..4],
    )
        .prop_map(|(kind, wasted, relation)| ChanRecipe { kind, wasted, relation })
        .boxed()
}

/// `frames` strategy is supplied by the caller (it depends on the block size).
pub fn recipe_strategy(
    channels: BoxedStrategy<u8>,
    frames: BoxedStrategy<u32>,
) -> BoxedStrategy<Recipe> {
    (bps_strategy(), channels, rate_strategy(), frames, any::<u64>())
        .prop_flat_map(|(bps, nch, rate, frames, seed)| {
            (
                proptest::collection::vec(chan_strategy(bps), nch as usize..=nch as usize),
                prop_oneof![4 => Just(0u32), 1 => 5u32..200],
            )
                .prop_map(move |(chans, seg)| Recipe { bps, rate, frames, seed, chans, seg, ms_mix: 0 })
        })
        .boxed()
}

pub fn channels_strategy() -> BoxedStrategy<u8> {
    prop_oneof![3 => Just(1u8), 4 => Just(2u8), 2 => 3u8..=8, 1 => Just(8u8)].boxed()
}

/// Music-like material: tonal / resonant channels, common depths, stereo often built from a
/// tonal mid and a small noisy side so that mid/side coding wins.
pub fn tonal_recipe_strategy(frames: BoxedStrategy<u32>) -> BoxedStrategy<Recipe> {
    let bps = prop_oneof![4 => Just(16u8), 3 => Just(24u8), 2 => Just(32u8), 1 => Just(8u8), 1 => Just(12u8), 1 => Just(20u8), 1 => 4u8..=32];
    let nch = prop_oneof![2 => Just(1u8), 5 => Just(2u8), 1 => 3u8..=8];
    (bps, nch, rate_strategy(), frames, any::<u64>())
        .prop_flat_map(|(bps, nch, rate, frames, seed)| {
            let full = bps - 1;
            let kind = prop_oneof![
                5 => (1u8..=24, full.saturating_sub(6)..=full, 0u8..=(bps / 2).max(1)).prop_map(|(partials, amp, noise)| Kind::Tonal { partials, amp, noise }),
                2 => (1u8..=16, full.saturating_sub(4)..=full).prop_map(|(poles, amp)| Kind::Ar { poles, amp }),
                1 => (1u8..4, 0..=full, 0u8..4).prop_map(|(n, amp, noise)| Kind::Sines { n, amp, noise }),
                1 => (0..=full).prop_map(|amp| Kind::Noise { amp }),
            ];
            let chan = (kind, prop_oneof![8 => Just(0u8), 1 => 1u8..4], prop_oneof![6 => Just(0u8), 2 => 1u8..4])
                .prop_map(|(kind, wasted, relation)| ChanRecipe { kind, wasted, relation });
            (proptest::collection::vec(chan, nch as usize..=nch as usize), prop_oneof![2 => Just(0u8), 3 => 1u8..=12])
                .prop_map(move |(chans, ms_mix)| Recipe { bps, rate, frames, seed, chans, seg: 0, ms_mix })
        })
        .boxed()
}
