//! Independent RFC 9639 decoder / strict validator (prototype).
//! Shares no code with flac-codec.

#[derive(Debug, Clone)]
pub struct StreamInfo {
    pub min_bs: u16,
    pub max_bs: u16,
    pub min_fs: u32,
    pub max_fs: u32,
    pub rate: u32,
    pub channels: u8,
    pub bps: u8,
    pub total: u64,
    pub md5: [u8; 16],
}

#[derive(Debug, Clone)]
pub struct SubframeInfo {
    pub kind: &'static str, // CONSTANT VERBATIM FIXED LPC
    pub order: u8,
    pub wasted: u32,
    pub method: u8,
    pub part_order: u8,
    pub escapes: u32,
    pub max_rice: u32,
    pub bits: u64,
    pub range_ok: bool,
    /// LPC only: coefficient precision in bits and right shift
    pub lpc_precision: u8,
    pub lpc_shift: u8,
}

#[derive(Debug, Clone)]
pub struct FrameInfo {
    pub offset: usize, // from start of file
    pub len: usize,
    /// header length including the CRC-8 byte
    pub hdr_len: usize,
    /// the coded frame/sample number uses the minimal number of bytes
    pub number_minimal: bool,
    /// reserved header bits and byte-alignment padding bits are all zero
    pub pad_zero: bool,
    /// every residual, subframe sample and output sample is within its legal range
    pub range_ok: bool,
    pub variable: bool,
    pub number: u64,
    pub bs: u32,
    pub bs_code: u8,
    pub rate: u32,
    pub rate_code: u8,
    pub chan_code: u8,
    pub bps: u8,
    pub bps_code: u8,
    pub subframes: Vec<SubframeInfo>,
    pub first_sample: u64,
}

#[derive(Debug, Clone)]
pub struct Decoded {
    pub info: StreamInfo,
    pub blocks: Vec<(u8, usize, usize)>, // type, offset of payload, len
    pub first_frame: usize,
    pub frames: Vec<FrameInfo>,
    pub pcm: Vec<Vec<i32>>, // per channel
    pub md5_ok: Option<bool>,
}

pub type R<T> = Result<T, String>;

pub struct Bits<'a> {
    d: &'a [u8],
    pub pos: usize, // bit position
}
impl<'a> Bits<'a> {
    pub fn new(d: &'a [u8], byte_off: usize) -> Self {
        Bits { d, pos: byte_off * 8 }
    }
    pub fn bit(&mut self) -> R<u32> {
        let b = self.pos >> 3;
        if b >= self.d.len() {
            return Err("eof".into());
        }
        let v = (self.d[b] >> (7 - (self.pos & 7))) & 1;
        self.pos += 1;
        Ok(v as u32)
    }
    pub fn u(&mut self, n: u32) -> R<u64> {
        let mut v = 0u64;
        for _ in 0..n {
            v = (v << 1) | self.bit()? as u64;
        }
        Ok(v)
    }
    pub fn s(&mut self, n: u32) -> R<i64> {
        if n == 0 {
            return Ok(0);
        }
        let v = self.u(n)?;
        let sh = 64 - n;
        Ok(((v << sh) as i64) >> sh)
    }
    pub fn unary0(&mut self, limit: u64) -> R<u64> {
        // count zeros until a one
        let mut c = 0u64;
        while self.bit()? == 0 {
            c += 1;
            if c > limit {
                return Err("unary run too long".into());
            }
        }
        Ok(c)
    }
    pub fn aligned(&self) -> bool {
        self.pos & 7 == 0
    }
    pub fn byte_pos(&self) -> usize {
        self.pos >> 3
    }
}

pub fn crc8(d: &[u8]) -> u8 {
    let mut c = 0u8;
    for &b in d {
        c ^= b;
        for _ in 0..8 {
            c = if c & 0x80 != 0 { (c << 1) ^ 0x07 } else { c << 1 };
        }
    }
    c
}
pub fn crc16(d: &[u8]) -> u16 {
    let mut c = 0u16;
    for &b in d {
        c ^= (b as u16) << 8;
        for _ in 0..8 {
            c = if c & 0x8000 != 0 { (c << 1) ^ 0x8005 } else { c << 1 };
        }
    }
    c
}

fn be(d: &[u8]) -> u64 {
    d.iter().fold(0u64, |a, &b| (a << 8) | b as u64)
}

pub struct Cfg {
    pub strict: bool,
    /// with `strict`: also require STREAMINFO's informational fields (min/max frame size, MD5) to be true
    pub check_info: bool,
}

impl Cfg {
    pub const STRICT: Cfg = Cfg { strict: true, check_info: true };
    /// strict framing rules, but STREAMINFO min/max frame size and MD5 are not compared
    pub const STRICT_FRAMING: Cfg = Cfg { strict: true, check_info: false };
    pub const LENIENT: Cfg = Cfg { strict: false, check_info: false };
}

/// Full decode: any error is fatal.
pub fn decode_file(d: &[u8], cfg: &Cfg) -> R<Decoded> {
    let (dec, err) = decode_partial(d, cfg)?;
    match err {
        Some(e) => Err(e),
        None => Ok(dec),
    }
}

/// Decodes as many frames as possible. Metadata errors are fatal (`Err`); a frame-level error
/// ends decoding and is returned next to everything decoded before it.
pub fn decode_partial(d: &[u8], cfg: &Cfg) -> R<(Decoded, Option<String>)> {
    if d.len() < 4 || &d[0..4] != b"fLaC" {
        return Err("missing fLaC marker".into());
    }
    let mut p = 4usize;
    let mut blocks = vec![];
    let mut info: Option<StreamInfo> = None;
    let mut first = true;
    loop {
        if p + 4 > d.len() {
            return Err("eof in metadata header".into());
        }
        let last = d[p] & 0x80 != 0;
        let ty = d[p] & 0x7f;
        let len = be(&d[p + 1..p + 4]) as usize;
        p += 4;
        if p + len > d.len() {
            return Err("eof in metadata block".into());
        }
        if ty == 127 {
            return Err("forbidden block type 127".into());
        }
        if first {
            if ty != 0 || len != 34 {
                return Err("first block is not a 34-byte STREAMINFO".into());
            }
            let b = &d[p..p + 34];
            let x = be(&b[10..18]);
            let mut md5 = [0u8; 16];
            md5.copy_from_slice(&b[18..34]);
            info = Some(StreamInfo {
                min_bs: be(&b[0..2]) as u16,
                max_bs: be(&b[2..4]) as u16,
                min_fs: be(&b[4..7]) as u32,
                max_fs: be(&b[7..10]) as u32,
                rate: (x >> 44) as u32,
                channels: ((x >> 41) & 7) as u8 + 1,
                bps: ((x >> 36) & 31) as u8 + 1,
                total: x & ((1u64 << 36) - 1),
                md5,
            });
            first = false;
        } else if ty == 0 {
            return Err("second STREAMINFO".into());
        }
        blocks.push((ty, p, len));
        p += len;
        if last {
            break;
        }
    }
    let info = info.unwrap();
    if cfg.strict {
        if info.min_bs < 16 || info.max_bs < 16 {
            return Err(format!("STREAMINFO block size < 16 ({}, {})", info.min_bs, info.max_bs));
        }
        if info.min_bs > info.max_bs {
            return Err("STREAMINFO min block size > max".into());
        }
    }
    let first_frame = p;
    let mut frames = vec![];
    let mut pcm: Vec<Vec<i32>> = vec![vec![]; info.channels as usize];
    let mut sample_pos = 0u64;
    let mut variable: Option<bool> = None;
    let mut frame_err: Option<String> = None;
    while p < d.len() {
        if info.total != 0 && sample_pos >= info.total {
            if cfg.strict {
                frame_err = Some(format!("{} trailing bytes after last frame", d.len() - p));
            }
            break;
        }
        let (fi, chans) = match decode_frame(d, p, Some(&info), cfg) {
            Ok(x) => x,
            Err(e) => {
                frame_err = Some(e);
                break;
            }
        };
        if let Some(v) = variable {
            if v != fi.variable && cfg.strict {
                frame_err = Some("blocking strategy changed".into());
                break;
            }
        }
        variable = Some(fi.variable);
        if cfg.strict {
            if fi.variable {
                if fi.number != sample_pos {
                    frame_err = Some(format!("sample number {} != expected {}", fi.number, sample_pos));
                    break;
                }
            } else if fi.number != frames.len() as u64 {
                frame_err = Some(format!("frame number {} != expected {}", fi.number, frames.len()));
                break;
            }
        }
        let mut fi = fi;
        fi.first_sample = sample_pos;
        sample_pos += fi.bs as u64;
        p += fi.len;
        for (c, ch) in chans.into_iter().enumerate() {
            pcm[c].extend(ch);
        }
        frames.push(fi);
    }
    if frame_err.is_some() {
        return Ok((Decoded { info, blocks, first_frame, frames, pcm, md5_ok: None }, frame_err));
    }
    if info.total != 0 && sample_pos < info.total {
        return Ok((
            Decoded { info: info.clone(), blocks, first_frame, frames, pcm, md5_ok: None },
            Some(format!("stream ends after {} of {} samples", sample_pos, info.total)),
        ));
    }
    if cfg.strict {
        if info.total != 0 && sample_pos != info.total {
            return Err(format!("STREAMINFO total {} != decoded {}", info.total, sample_pos));
        }
        let n = frames.len();
        for (i, f) in frames.iter().enumerate() {
            let lastf = i + 1 == n;
            if f.bs > info.max_bs as u32 {
                return Err(format!("frame {} block size {} > max {}", i, f.bs, info.max_bs));
            }
            if !lastf {
                if f.bs < info.min_bs as u32 {
                    return Err(format!("non-final frame {} block size {} < min {}", i, f.bs, info.min_bs));
                }
                if !f.variable && f.bs != info.max_bs as u32 {
                    return Err(format!("fixed-size stream: frame {} has {} != {}", i, f.bs, info.max_bs));
                }
            }
        }
        if info.min_fs != 0 && cfg.check_info {
            let m = frames.iter().map(|f| f.len).min().unwrap_or(0);
            if m as u32 != info.min_fs {
                return Err(format!("STREAMINFO min frame size {} != true {}", info.min_fs, m));
            }
        }
        if info.max_fs != 0 && cfg.check_info {
            let m = frames.iter().map(|f| f.len).max().unwrap_or(0);
            if m as u32 != info.max_fs {
                return Err(format!("STREAMINFO max frame size {} != true {}", info.max_fs, m));
            }
        }
    }
    let md5_ok = if info.md5 == [0u8; 16] {
        None
    } else {
        Some(pcm_md5(&pcm, info.bps) == info.md5)
    };
    if cfg.strict && cfg.check_info && md5_ok == Some(false) {
        return Err("MD5 mismatch".into());
    }
    Ok((Decoded { info, blocks, first_frame, frames, pcm, md5_ok }, None))
}

pub fn pcm_md5(pcm: &[Vec<i32>], bps: u8) -> [u8; 16] {
    let bytes = (bps as usize + 7) / 8;
    let mut ctx = md5::Context::new();
    let n = pcm.first().map(|c| c.len()).unwrap_or(0);
    let mut buf = Vec::with_capacity(n * pcm.len() * bytes);
    for i in 0..n {
        for c in pcm {
            let v = c[i].to_le_bytes();
            buf.extend_from_slice(&v[..bytes]);
        }
    }
    ctx.consume(&buf);
    ctx.finalize().0
}

const BS_TABLE: [u32; 16] = [0, 192, 576, 1152, 2304, 4608, 0, 0, 256, 512, 1024, 2048, 4096, 8192, 16384, 32768];
const RATE_TABLE: [u32; 12] = [0, 88200, 176400, 192000, 8000, 16000, 22050, 24000, 32000, 44100, 48000, 96000];

/// Decode one frame starting at byte `off`. `info` None = standalone (subset) frame.
pub fn decode_frame(d: &[u8], off: usize, info: Option<&StreamInfo>, cfg: &Cfg) -> R<(FrameInfo, Vec<Vec<i32>>)> {
    let mut b = Bits::new(d, off);
    let sync = b.u(14)?;
    if sync != 0x3ffe {
        return Err(format!("bad sync at {}", off));
    }
    let res = b.u(1)?;
    if cfg.strict && res != 0 {
        return Err("reserved bit after sync set".into());
    }
    let variable = b.u(1)? == 1;
    let bs_code = b.u(4)? as u8;
    let rate_code = b.u(4)? as u8;
    let chan_code = b.u(4)? as u8;
    let bps_code = b.u(3)? as u8;
    let res2 = b.u(1)?;
    if cfg.strict && res2 != 0 {
        return Err("reserved bit after depth set".into());
    }
    if bs_code == 0 {
        return Err("reserved block size code 0000".into());
    }
    if rate_code == 15 {
        return Err("forbidden sample rate code 1111".into());
    }
    if chan_code > 10 {
        return Err("reserved channel code".into());
    }
    if bps_code == 3 {
        return Err("reserved depth code 011".into());
    }
    // coded number
    let b0 = b.u(8)? as u8;
    let (extra, mut num) = if b0 & 0x80 == 0 {
        (0, b0 as u64)
    } else if b0 & 0xE0 == 0xC0 {
        (1, (b0 & 0x1F) as u64)
    } else if b0 & 0xF0 == 0xE0 {
        (2, (b0 & 0x0F) as u64)
    } else if b0 & 0xF8 == 0xF0 {
        (3, (b0 & 0x07) as u64)
    } else if b0 & 0xFC == 0xF8 {
        (4, (b0 & 0x03) as u64)
    } else if b0 & 0xFE == 0xFC {
        (5, (b0 & 0x01) as u64)
    } else if b0 == 0xFE {
        (6, 0u64)
    } else {
        return Err("malformed coded number lead byte".into());
    };
    for _ in 0..extra {
        let c = b.u(8)? as u8;
        if c & 0xC0 != 0x80 {
            return Err("malformed coded number continuation".into());
        }
        num = (num << 6) | (c & 0x3F) as u64;
    }
    let minimal = match extra {
        0 => true,
        1 => num >= 0x80,
        2 => num >= 0x800,
        3 => num >= 0x1_0000,
        4 => num >= 0x20_0000,
        5 => num >= 0x400_0000,
        _ => num >= 0x8000_0000,
    };
    if cfg.strict {
        if !minimal {
            return Err("over-long coded number".into());
        }
        if !variable && extra == 6 {
            return Err("frame number exceeds 31 bits".into());
        }
    }
    let bs: u32 = match bs_code {
        6 => b.u(8)? as u32 + 1,
        7 => {
            let v = b.u(16)? as u32 + 1;
            if v == 65536 {
                return Err("block size 65536".into());
            }
            v
        }
        c => BS_TABLE[c as usize],
    };
    let rate: u32 = match rate_code {
        0 => match info {
            Some(i) => i.rate,
            None => return Err("rate from STREAMINFO in subset frame".into()),
        },
        12 => b.u(8)? as u32 * 1000,
        13 => b.u(16)? as u32,
        14 => b.u(16)? as u32 * 10,
        c => RATE_TABLE[c as usize],
    };
    let bps: u8 = match bps_code {
        0 => match info {
            Some(i) => i.bps,
            None => return Err("depth from STREAMINFO in subset frame".into()),
        },
        1 => 8,
        2 => 12,
        4 => 16,
        5 => 20,
        6 => 24,
        7 => 32,
        _ => unreachable!(),
    };
    let hdr_end = b.byte_pos();
    let crc = b.u(8)? as u8;
    if crc8(&d[off..hdr_end]) != crc {
        return Err("CRC-8 mismatch".into());
    }
    let nch = if chan_code < 8 { chan_code as usize + 1 } else { 2 };
    if let Some(i) = info {
        if rate != i.rate {
            return Err("frame rate != STREAMINFO".into());
        }
        if bps != i.bps {
            return Err("frame depth != STREAMINFO".into());
        }
        if nch != i.channels as usize {
            return Err("frame channels != STREAMINFO".into());
        }
    }
    let mut subs = vec![];
    let mut chans: Vec<Vec<i64>> = vec![];
    for c in 0..nch {
        let sbps = bps as u32
            + match (chan_code, c) {
                (8, 1) | (9, 0) | (10, 1) => 1,
                _ => 0,
            };
        let start = b.pos;
        let (mut si, s) = decode_subframe(&mut b, bs as usize, sbps, cfg)?;
        si.bits = (b.pos - start) as u64;
        subs.push(si);
        chans.push(s);
    }
    // padding
    let mut pad_zero = res == 0 && res2 == 0;
    while !b.aligned() {
        let z = b.bit()?;
        if z != 0 {
            pad_zero = false;
        }
        if cfg.strict && z != 0 {
            return Err("non-zero frame padding".into());
        }
    }
    let body_end = b.byte_pos();
    let c16 = b.u(16)? as u16;
    if crc16(&d[off..body_end]) != c16 {
        return Err("CRC-16 mismatch".into());
    }
    let len = b.byte_pos() - off;
    // decorrelate
    let out: Vec<Vec<i64>> = match chan_code {
        8 => {
            let l = chans[0].clone();
            let r: Vec<i64> = l.iter().zip(&chans[1]).map(|(l, s)| l.wrapping_sub(*s)).collect();
            vec![l, r]
        }
        9 => {
            let r = chans[1].clone();
            let l: Vec<i64> = r.iter().zip(&chans[0]).map(|(r, s)| r.wrapping_add(*s)).collect();
            vec![l, r]
        }
        10 => {
            let mut l = vec![];
            let mut r = vec![];
            for (m, s) in chans[0].iter().zip(&chans[1]) {
                let m2 = m.wrapping_shl(1) | (s & 1);
                l.push(m2.wrapping_add(*s) >> 1);
                r.push(m2.wrapping_sub(*s) >> 1);
            }
            vec![l, r]
        }
        _ => chans,
    };
    let lo = -(1i64 << (bps - 1));
    let hi = (1i64 << (bps - 1)) - 1;
    let mut out32 = vec![];
    let mut out_range_ok = true;
    for ch in out {
        let mut v = Vec::with_capacity(ch.len());
        for s in ch {
            if s < lo || s > hi {
                out_range_ok = false;
                if cfg.strict {
                    return Err(format!("decoded sample {} outside {}-bit range", s, bps));
                }
            }
            v.push(s as i32);
        }
        out32.push(v);
    }
    Ok((
        FrameInfo {
            offset: off,
            len,
            hdr_len: hdr_end + 1 - off,
            number_minimal: minimal,
            pad_zero,
            range_ok: out_range_ok && subs.iter().all(|s| s.range_ok),
            variable,
            number: num,
            bs,
            bs_code,
            rate,
            rate_code,
            chan_code,
            bps,
            bps_code,
            subframes: subs,
            first_sample: 0,
        },
        out32,
    ))
}

fn decode_subframe(b: &mut Bits, bs: usize, bps: u32, cfg: &Cfg) -> R<(SubframeInfo, Vec<i64>)> {
    if b.u(1)? != 0 {
        return Err("subframe padding bit set".into());
    }
    let ty = b.u(6)? as u8;
    let mut wasted = 0u32;
    if b.u(1)? == 1 {
        wasted = b.unary0(64)? as u32 + 1;
    }
    if wasted >= bps {
        return Err("wasted bits >= depth".into());
    }
    let eb = bps - wasted;
    let mut si = SubframeInfo { kind: "", order: 0, wasted, method: 0, part_order: 0, escapes: 0, max_rice: 0, bits: 0, range_ok: true, lpc_precision: 0, lpc_shift: 0 };
    let mut s: Vec<i64> = Vec::with_capacity(bs);
    match ty {
        0 => {
            si.kind = "CONSTANT";
            let v = b.s(eb)?;
            s.resize(bs, v);
        }
        1 => {
            si.kind = "VERBATIM";
            for _ in 0..bs {
                s.push(b.s(eb)?);
            }
        }
        8..=12 => {
            si.kind = "FIXED";
            let order = (ty - 8) as usize;
            si.order = order as u8;
            if order > bs {
                return Err("fixed order > block size".into());
            }
            for _ in 0..order {
                s.push(b.s(eb)?);
            }
            let res = residuals(b, bs, order, &mut si, cfg)?;
            let coef: &[i64] = match order {
                0 => &[],
                1 => &[1],
                2 => &[2, -1],
                3 => &[3, -3, 1],
                _ => &[4, -6, 4, -1],
            };
            for r in res {
                let n = s.len();
                let mut p: i64 = 0;
                for (j, c) in coef.iter().enumerate() {
                    p = p.wrapping_add(c.wrapping_mul(s[n - 1 - j]));
                }
                s.push(p.wrapping_add(r));
            }
        }
        32..=63 => {
            si.kind = "LPC";
            let order = (ty - 31) as usize;
            si.order = order as u8;
            if order > bs {
                return Err("lpc order > block size".into());
            }
            for _ in 0..order {
                s.push(b.s(eb)?);
            }
            let prec = b.u(4)? as u32;
            if prec == 15 {
                return Err("invalid precision 1111".into());
            }
            let prec = prec + 1;
            let shift = b.s(5)?;
            if shift < 0 {
                return Err("negative lpc shift".into());
            }
            si.lpc_precision = prec as u8;
            si.lpc_shift = shift as u8;
            let mut coef = vec![];
            for _ in 0..order {
                coef.push(b.s(prec)?);
            }
            let res = residuals(b, bs, order, &mut si, cfg)?;
            for r in res {
                let n = s.len();
                let mut p: i128 = 0;
                for (j, c) in coef.iter().enumerate() {
                    p += (*c as i128) * (s[n - 1 - j] as i128);
                }
                if p > i64::MAX as i128 || p < i64::MIN as i128 {
                    si.range_ok = false;
                    if cfg.strict {
                        return Err("prediction overflows 64 bits".into());
                    }
                }
                s.push(((p >> shift) as i64).wrapping_add(r));
            }
        }
        _ => return Err(format!("reserved subframe type {:06b}", ty)),
    }
    {
        let lo = -(1i64 << (eb - 1));
        let hi = (1i64 << (eb - 1)) - 1;
        for v in &s {
            if *v < lo || *v > hi {
                si.range_ok = false;
                if cfg.strict {
                    return Err(format!("subframe sample {} outside {}-bit range", v, eb));
                }
            }
        }
    }
    if wasted > 0 {
        for v in s.iter_mut() {
            *v = v.wrapping_shl(wasted);
        }
    }
    Ok((si, s))
}

fn residuals(b: &mut Bits, bs: usize, order: usize, si: &mut SubframeInfo, cfg: &Cfg) -> R<Vec<i64>> {
    let method = b.u(2)? as u8;
    if method > 1 {
        return Err("reserved residual coding method".into());
    }
    si.method = method;
    let pbits = if method == 0 { 4 } else { 5 };
    let esc = if method == 0 { 15 } else { 31 };
    let po = b.u(4)? as u32;
    si.part_order = po as u8;
    let parts = 1usize << po;
    if bs % parts != 0 {
        return Err(format!("partition order {} does not divide block size {}", po, bs));
    }
    let plen = bs >> po;
    // RFC 9639 9.2.7.1: (block size >> partition order) MUST be greater than the predictor order.
    // Lenient mode tolerates the degenerate single-partition case with zero residuals.
    if plen < order || (plen == order && (po > 0 || cfg.strict)) {
        return Err(format!("partition order {}: (bs>>po)={} <= predictor order {}", po, plen, order));
    }
    let mut out = Vec::with_capacity(bs - order);
    for p in 0..parts {
        let n = if p == 0 { plen - order } else { plen };
        let k = b.u(pbits)? as u32;
        if k == esc {
            si.escapes += 1;
            let w = b.u(5)? as u32;
            for _ in 0..n {
                let v = b.s(w)?;
                check_res(v, cfg, si)?;
                out.push(v);
            }
        } else {
            si.max_rice = si.max_rice.max(k);
            for _ in 0..n {
                let q = b.unary0(1 << 33)?;
                let r = b.u(k)?;
                let zz = (q << k) | r;
                let v = if zz & 1 == 1 { -((zz >> 1) as i64) - 1 } else { (zz >> 1) as i64 };
                check_res(v, cfg, si)?;
                out.push(v);
            }
        }
    }
    Ok(out)
}

fn check_res(v: i64, cfg: &Cfg, si: &mut SubframeInfo) -> R<()> {
    if v <= i32::MIN as i64 || v > i32::MAX as i64 {
        si.range_ok = false;
        if cfg.strict {
            return Err(format!("residual {} outside (i32::MIN, i32::MAX]", v));
        }
    }
    Ok(())
}
