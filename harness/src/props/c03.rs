//! C03 — the decoder follows RFC 9639 on every valid stream, not just its own encoder's.

use super::c01::strip_digits;
use crate::codec::{self, READERS};
use crate::engine::{Ctx, Engine, Fail, Outcome, Tier};
use crate::framegen::{self, GenStream, HeaderChoice, Md5Mode, StreamParams};
use crate::pcm::Rng;
use crate::refdec::{self, Cfg};
use crate::util::guarded;
use flac_codec::decode::{FlacStreamReader, Verified, verify_reader};
use flac_codec::stream::{ChannelAssignment, Frame, SubframeWidth};
use proptest::prelude::*;
use serde::{Deserialize, Serialize};

#[derive(Serialize, Deserialize, Clone, Debug, Hash, PartialEq, Eq)]
pub struct GenCase {
    pub seed: u64,
    pub low_depth: bool,
    pub max_frames: u8,
    pub max_bs: u32,
}

pub fn gen_case_strategy(max_bs_hi: u32) -> BoxedStrategy<GenCase> {
    (
        any::<u64>(),
        prop_oneof![9 => Just(false), 1 => Just(true)],
        1u8..=6,
        prop_oneof![4 => 16u32..=64, 2 => 16u32..=256, 2 => 192u32..=600, 1 => 16u32..=max_bs_hi],
    )
        .prop_map(|(seed, low_depth, max_frames, max_bs)| GenCase { seed, low_depth, max_frames, max_bs })
        .boxed()
}

/// Constructs the crate's own encoder never emits (used for the non-trivial rule).
pub const FOREIGN: &[&str] = &[
    "variable-blocking",
    "uncommon-code-for-common-blocksize",
    "uncommon-code-for-common-rate",
    "depth-code-000-for-listed-depth",
    "escape",
    "escape-width-0",
    "lpc-order>12",
    "lpc-precision>=14",
    "lpc-precision=1",
    "wasted-on-side",
    "33-bit-side",
    "rice-param>=15",
    "part-order>=8",
    "seektable-placeholders",
    "seektable-first-point-not-frame0",
];

pub fn interleave(pcm: &[Vec<i32>]) -> Vec<i32> {
    let n = pcm.first().map(|c| c.len()).unwrap_or(0);
    let mut v = Vec::with_capacity(n * pcm.len());
    for i in 0..n {
        for c in pcm {
            v.push(c[i]);
        }
    }
    v
}

/// Expands a structurally parsed frame to PCM (per channel, i64), undoing channel decorrelation
/// with harness code. Err = a subframe did not expand to block-size samples.
pub fn frame_to_pcm(f: &Frame) -> Result<Vec<Vec<i64>>, String> {
    let bs = u16::from(f.header.block_size) as usize;
    let mut chans: Vec<Vec<i64>> = vec![];
    for (i, s) in f.subframes.iter().enumerate() {
        let v: Vec<i64> = match s {
            SubframeWidth::Common(s) => s.decode().map(|x| x as i64).collect(),
            SubframeWidth::Wide(s) => s.decode().collect(),
        };
        if v.len() != bs {
            return Err(format!("subframe {i} expands to {} samples, block size is {bs}", v.len()));
        }
        chans.push(v);
    }
    Ok(match f.header.channel_assignment {
        ChannelAssignment::Independent(_) => chans,
        ChannelAssignment::LeftSide => {
            let r: Vec<i64> = chans[0].iter().zip(&chans[1]).map(|(l, s)| l.wrapping_sub(*s)).collect();
            vec![chans[0].clone(), r]
        }
        ChannelAssignment::SideRight => {
            let l: Vec<i64> = chans[0].iter().zip(&chans[1]).map(|(s, r)| s.wrapping_add(*r)).collect();
            vec![l, chans[1].clone()]
        }
        ChannelAssignment::MidSide => {
            let mut l = vec![];
            let mut r = vec![];
            for (m, s) in chans[0].iter().zip(&chans[1]) {
                // hostile frames reach this with arbitrary 64-bit values: wrap, never trap
                let m2 = m.wrapping_shl(1) | (s & 1);
                l.push(m2.wrapping_add(*s) >> 1);
                r.push(m2.wrapping_sub(*s) >> 1);
            }
            vec![l, r]
        }
    })
}

pub fn foreign_labels(gs: &GenStream, out: &mut Outcome) {
    for l in &gs.labels {
        out.label(l);
    }
    let below17 = gs.params.bps <= 16 && gs.labels.contains(&"method1");
    if below17 {
        out.label("method1-below-17-bits");
    }
    out.nontrivial = below17 || gs.labels.iter().any(|l| FOREIGN.contains(l));
}

/// Self-check of the generator against the independent decoder. Returns false on disagreement.
pub fn selfcheck(gs: &GenStream, out: &mut Outcome) -> bool {
    match refdec::decode_partial(&gs.bytes, &Cfg::LENIENT) {
        Ok((d, None)) => {
            if d.pcm != gs.pcm {
                out.infra.push("framegen and refdec disagree on the PCM of a generated stream".into());
                return false;
            }
        }
        Ok((_, Some(e))) | Err(e) => {
            out.infra.push(format!("refdec rejects a framegen stream: {e}"));
            return false;
        }
    }
    // strict mode must accept too, except for a deliberately wrong MD5
    if gs.md5 != Md5Mode::Wrong {
        if let Err(e) = refdec::decode_file(&gs.bytes, &Cfg::STRICT) {
            out.infra.push(format!("strict refdec rejects a framegen stream: {e}"));
            return false;
        }
    }
    true
}

pub struct ValidStream;

impl Engine for ValidStream {
    type Case = GenCase;
    fn name(&self) -> &'static str {
        "valid-stream"
    }
    fn check(&self, c: &GenCase) -> Outcome {
        let mut out = Outcome::new();
        let mut rng = Rng(c.seed);
        let gs = framegen::gen_stream(&mut rng, c.low_depth, c.max_frames.max(1) as usize, c.max_bs.max(16));
        foreign_labels(&gs, &mut out);
        if !selfcheck(&gs, &mut out) {
            return out;
        }
        let want = interleave(&gs.pcm);
        let total: u64 = gs.pcm[0].len() as u64;
        for kind in READERS {
            match guarded(|| codec::decode_with(std::io::Cursor::new(&gs.bytes), kind, 1 + (c.seed % 3000) as usize)) {
                Err(p) => out.fails.push(Fail::panic("decode-panic", &p)),
                Ok(Err(e)) => out.fail(format!("open-error:{}", strip_digits(&e)), format!("{kind:?}: valid stream cannot be opened: {e}")),
                Ok(Ok(d)) => {
                    if let Some(e) = &d.err {
                        out.fail(format!("decode-error:{}", strip_digits(e)), format!("{kind:?}: valid stream rejected: {e} (after {} samples)", d.samples.len()));
                        continue;
                    }
                    if d.samples != want {
                        let first = d.samples.iter().zip(&want).position(|(a, b)| a != b);
                        out.fail(
                            format!("sample-mismatch:{kind:?}"),
                            format!("{kind:?}: {} samples decoded, {} expected, first difference at {:?}", d.samples.len(), want.len(), first),
                        );
                    }
                    if d.channels != gs.params.channels || d.bps != gs.params.bps as u32 || d.rate != gs.params.rate {
                        out.fail("metadata-accessors", format!("{kind:?}: accessors report {}ch/{}bit/{}Hz", d.channels, d.bps, d.rate));
                    }
                    let want_total = if gs.total_known { Some(total) } else { None };
                    if d.total != want_total {
                        out.fail("metadata-total", format!("{kind:?}: total_samples {:?}, stream says {:?}", d.total, want_total));
                    }
                }
            }
        }
        // MD5 verdict
        match guarded(|| verify_reader(std::io::Cursor::new(&gs.bytes))) {
            Err(p) => out.fails.push(Fail::panic("verify-panic", &p)),
            Ok(Err(e)) => out.fail(format!("verify-error:{}", strip_digits(&e.to_string())), format!("verify_reader: {e}")),
            Ok(Ok(v)) => {
                let want = match gs.md5 {
                    Md5Mode::True => Verified::MD5Match,
                    Md5Mode::Zero => Verified::NoMD5,
                    Md5Mode::Wrong => Verified::MD5Mismatch,
                };
                if v != want {
                    out.fail(format!("verify-verdict:{:?}-instead-of-{:?}", v, want), format!("verify_reader returned {v:?}, expected {want:?}"));
                }
            }
        }
        out.evals = READERS.len() as u64 + 1;
        out
    }
    fn sample(&self, c: &GenCase) -> serde_json::Value {
        let mut rng = Rng(c.seed);
        let gs = framegen::gen_stream(&mut rng, c.low_depth, c.max_frames.max(1) as usize, c.max_bs.max(16));
        serde_json::json!({
            "case": c,
            "params": format!("{}ch {}bit {}Hz", gs.params.channels, gs.params.bps, gs.params.rate),
            "blocks": gs.frames.iter().map(|f| f.3).collect::<Vec<_>>(),
            "constructs": gs.labels,
            "bytes": gs.bytes.len(),
        })
    }
}

// ---------------------------------------------------------------------------------------------

#[derive(Serialize, Deserialize, Clone, Debug, Hash, PartialEq, Eq)]
pub struct BareCase {
    pub seed: u64,
    pub bs: u32,
    /// index into the coded-number length classes (1..=7 bytes)
    pub number_class: u8,
}

pub fn bare_params(ch: &mut Rng) -> StreamParams {
    use framegen::Chooser;
    let bps = [8u8, 12, 16, 20, 24, 32][ch.below(6) as usize];
    let channels = match ch.below(4) {
        0 => 1,
        1 | 2 => 2,
        _ => 1 + ch.below(8) as u8,
    };
    let rate = match ch.below(5) {
        0 => 44100,
        1 => [8000u32, 16000, 22050, 24000, 32000, 48000, 88200, 96000, 176400, 192000][ch.below(10) as usize],
        2 => (1 + ch.below(255) as u32) * 1000,
        3 => 1 + ch.below(65535) as u32,
        _ => (1 + ch.below(65535) as u32) * 10,
    };
    StreamParams { channels, bps, rate }
}

pub fn bare_number(ch: &mut Rng, class: u8) -> u64 {
    use framegen::Chooser;
    let (lo, hi): (u64, u64) = match class % 7 {
        0 => (0, 0x7F),
        1 => (0x80, 0x7FF),
        2 => (0x800, 0xFFFF),
        3 => (0x1_0000, 0x1F_FFFF),
        4 => (0x20_0000, 0x3FF_FFFF),
        5 => (0x400_0000, 0x7FFF_FFFF),
        _ => (0x8000_0000, 0xF_FFFF_FFFF),
    };
    match ch.below(4) {
        0 => lo,
        1 => hi,
        _ => lo + ch.below(hi - lo + 1),
    }
}

pub struct BareFrame;

impl Engine for BareFrame {
    type Case = BareCase;
    fn name(&self) -> &'static str {
        "bare-frame"
    }
    fn check(&self, c: &BareCase) -> Outcome {
        use framegen::Chooser;
        let mut out = Outcome::new();
        let mut rng = Rng(c.seed);
        let p = bare_params(&mut rng);
        let bs = c.bs.clamp(1, 65535) as usize;
        let pcm = framegen::gen_pcm(&mut rng, p.channels, p.bps, bs);
        let variable = rng.chance(1, 2);
        let number = bare_number(&mut rng, c.number_class);
        // frame numbers (fixed blocking) are limited to 31 bits
        let number = if !variable { number & 0x7FFF_FFFF } else { number };
        let hc = HeaderChoice { variable, number, number_len: 0, allow_streaminfo_codes: false };
        let ir = framegen::gen_frame(&mut rng, &p, &pcm, &hc);
        let bytes = framegen::serialize_frame(&ir);
        for l in &ir.labels {
            out.label(l);
        }
        out.label(match framegen::coded_number(number, 0).len() {
            1 => "number:1-byte",
            2 => "number:2-bytes",
            3 => "number:3-bytes",
            4 => "number:4-bytes",
            5 => "number:5-bytes",
            6 => "number:6-bytes",
            _ => "number:7-bytes",
        });
        out.nontrivial = true;
        // self-check
        match refdec::decode_frame(&bytes, 0, None, &Cfg::STRICT) {
            Ok((fi, ch)) => {
                if ch != pcm || fi.len != bytes.len() || fi.number != number {
                    out.infra.push("framegen and refdec disagree on a bare frame".into());
                    return out;
                }
            }
            Err(e) => {
                out.infra.push(format!("strict refdec rejects a bare framegen frame: {e}"));
                return out;
            }
        }
        let want = interleave(&pcm);
        // (1) streaming reader
        let r = guarded(|| {
            let mut rd = FlacStreamReader::new(std::io::Cursor::new(&bytes));
            rd.read().map(|fb| (fb.samples.to_vec(), fb.sample_rate, fb.channels, fb.bits_per_sample)).map_err(|e| e.to_string())
        });
        match r {
            Err(pn) => out.fails.push(Fail::panic("stream-reader-panic", &pn)),
            Ok(Err(e)) => out.fail(format!("stream-reader-error:{}", strip_digits(&e)), format!("valid bare frame rejected: {e}")),
            Ok(Ok((s, rate, chs, bps))) => {
                if s != want {
                    out.fail("stream-reader-samples", "FlacStreamReader returned different samples");
                }
                if rate != p.rate || chs != p.channels || bps != p.bps as u32 {
                    out.fail("stream-reader-params", format!("FlacStreamReader reports {rate}Hz {chs}ch {bps}bit, frame is {p:?}"));
                }
            }
        }
        // (2) structural parser
        let r = guarded(|| Frame::read_subset(&mut std::io::Cursor::new(&bytes)).map_err(|e| e.to_string()).and_then(|f| {
            let n = f.header.frame_number.0;
            frame_to_pcm(&f).map(|p| (p, n))
        }));
        match r {
            Err(pn) => out.fails.push(Fail::panic("structural-panic", &pn)),
            Ok(Err(e)) => out.fail(format!("structural-error:{}", strip_digits(&e)), format!("valid bare frame rejected by Frame::read_subset: {e}")),
            Ok(Ok((chs, n))) => {
                let got: Vec<Vec<i32>> = chs.iter().map(|c| c.iter().map(|v| *v as i32).collect()).collect();
                if got != pcm {
                    out.fail("structural-samples", "Frame::read_subset + decode gives different samples");
                }
                if n != number {
                    out.fail("structural-number", format!("coded number parsed as {n}, written {number}"));
                }
            }
        }
        out.evals = 2;
        out
    }
}

pub const RULE: &str = "streams come from the independent structure-aware generator (harness/src/framegen.rs): stream parameters, \
blocking strategy, per-frame block size / rate / depth codings, channel layout, per-subframe kind, order, precision, shift, \
coefficients, wasted bits, residual method, partition order, per-partition Rice parameter or escape width are all chosen \
independently; residuals are derived from target PCM so every stream is valid by construction (cross-checked by the independent \
decoder; disagreement = exit 2). Oracle: the target PCM, through all six readers, metadata accessors and the verify verdict for \
true / absent / wrong MD5. Non-trivial = the stream uses at least one construct the crate's encoder never emits (listed in \
props/c03.rs FOREIGN, or coding method 1 at <= 16 bits). Bare frames additionally sweep 1..7-byte coded numbers. Distinct = digest of the case.";

pub fn run(ctx: &Ctx) {
    ctx.set_rule(RULE);
    ctx.assume("framegen output is valid FLAC: enforced per case by the independent decoder (strict mode), which never shares code with the crate");
    let t = ctx.tier;
    let checked = crate::engine::profile() == "checked";
    ctx.regress(&ValidStream);
    ctx.regress(&BareFrame);
    let n = match (t, checked) {
        (Tier::Quick, false) => 16_000,
        (Tier::Quick, true) => 6_000,
        (Tier::Thorough, false) => 1_200_000,
        (Tier::Thorough, true) => 300_000,
    };
    ctx.search(&ValidStream, n, || gen_case_strategy(4096));
    let n = match (t, checked) {
        (Tier::Quick, false) => 20_000,
        (Tier::Quick, true) => 6_000,
        (Tier::Thorough, false) => 600_000,
        (Tier::Thorough, true) => 150_000,
    };
    ctx.search(&BareFrame, n, || {
        (any::<u64>(), prop_oneof![5 => 1u32..=64, 3 => 1u32..=600, 1 => 1u32..=65535], 0u8..7)
            .prop_map(|(seed, bs, number_class)| BareCase { seed, bs, number_class })
            .boxed()
    });
}

pub fn engines() -> Vec<Box<dyn crate::engine::DynEngine>> {
    vec![Box::new(ValidStream), Box::new(BareFrame)]
}
