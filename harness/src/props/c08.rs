//! C08 — the encoded file depends only on the PCM and options, not on how it was written.

use super::c01::{self, strip_digits};
use crate::codec::{self, EncErr, FRONTS, Front};
use crate::engine::{Ctx, Engine, Fail, Outcome, Tier};
use crate::opts::{self, EncOpts, Seek};
use crate::pcm::{self, ChanRecipe, Kind, Pcm, Recipe};
use crate::util::guarded;
use proptest::prelude::*;
use serde::{Deserialize, Serialize};
use std::io::Cursor;

#[derive(Serialize, Deserialize, Clone, Debug, Hash, PartialEq, Eq)]
pub struct ChunkCase {
    pub recipe: Recipe,
    pub opts: EncOpts,
    /// trailing samples of an incomplete PCM frame (fewer than `channels`); forces an undeclared total
    pub extra: Vec<i32>,
    /// additional bytes of an incomplete sample (byte front-ends)
    pub partial_bytes: u8,
    /// (front-end, chunk sizes in the front-end's unit)
    pub runs: Vec<(Front, Vec<usize>)>,
}

fn encode_run(pcm: &Pcm, opts: &EncOpts, front: Front, chunks: &[usize], extra: &[i32], partial_bytes: usize) -> Result<Vec<u8>, EncErr> {
    let mut cur = Cursor::new(Vec::new());
    let has_tail = !extra.is_empty() || partial_bytes > 0;
    let total = if opts.declare_total && !has_tail { Some(codec::declared_total(pcm, front)) } else { None };
    // the channel front-end takes whole PCM frames only: tails do not apply
    let (extra, partial_bytes) = match front {
        Front::Channels => (&[][..], 0),
        Front::Samples => (extra, 0),
        _ => (extra, partial_bytes),
    };
    codec::encode_ext(&mut cur, pcm, opts, front, chunks, total, extra, partial_bytes)?;
    Ok(cur.into_inner())
}

pub struct Chunking {
    pub name: &'static str,
}

impl Engine for Chunking {
    type Case = ChunkCase;
    fn name(&self) -> &'static str {
        self.name
    }
    fn check(&self, c: &ChunkCase) -> Outcome {
        let mut out = Outcome::new();
        let pcm = c.recipe.expand();
        let ch = pcm.channels as usize;
        let extra: Vec<i32> = c.extra.iter().take(ch.saturating_sub(1)).map(|v| (*v).clamp(pcm.min(), pcm.max())).collect();
        let partial = (c.partial_bytes as usize).min(pcm.bytes_per_sample().saturating_sub(1));
        let has_tail = !extra.is_empty() || partial > 0;
        if has_tail {
            out.label("trailing-partial-pcm-frame");
        }
        if pcm.frames() == 0 {
            out.label("less-than-one-pcm-frame");
        }
        // canonical: one call, no tail, sample front-end
        let mut o = c.opts.clone();
        if has_tail {
            o.declare_total = false;
        }
        let canon = guarded(|| encode_run(&pcm, &o, Front::Samples, &[], &[], 0));
        let canon = match canon {
            Err(p) => {
                out.fails.push(Fail::panic("canonical-encode-panic", &p));
                return out;
            }
            Ok(r) => r,
        };
        if pcm.frames() == 0 {
            // nothing encodable: finalize must report an error (or a valid empty result), not abort
            if let Ok(bytes) = &canon {
                if crate::refdec::decode_file(bytes, &crate::refdec::Cfg::LENIENT).is_err() {
                    out.fail("empty-input-invalid-file", "encoding zero PCM frames reported success but the file is not decodable");
                }
            }
        } else if let Err(EncErr::Options(_)) = &canon {
            out.label("options-refused");
            return out;
        } else if let Err(e) = &canon {
            out.fail(format!("canonical-encode-error:{}:{}", e.stage(), strip_digits(e.text())), format!("{e:?}"));
            return out;
        }
        let bs_units = |front: Front| -> usize {
            match front {
                Front::BytesLE | Front::BytesBE => pcm.bytes_per_sample() * ch,
                Front::Samples => ch,
                Front::Channels => 1,
            }
        };
        for (front, chunks) in &c.runs {
            out.evals += 1;
            let unit = bs_units(*front);
            if chunks.iter().any(|k| *k % unit != 0) {
                out.label("split-inside-pcm-frame");
                out.nontrivial = true;
            }
            if chunks.iter().any(|k| *k == 0) {
                out.label("empty-write");
            }
            let block_units = unit * o.block_size as usize;
            if chunks.iter().any(|k| *k % block_units != 0) && pcm.frames() > o.block_size as usize {
                out.label("write-straddles-block-boundary");
                out.nontrivial = true;
            }
            for rep in 0..2 {
                let r = guarded(|| encode_run(&pcm, &o, *front, chunks, &extra, partial));
                match (r, &canon) {
                    (Err(p), _) => {
                        out.fails.push(Fail::panic(&format!("encode-panic:{front:?}"), &p));
                        break;
                    }
                    (Ok(Ok(b)), Ok(cb)) => {
                        if b != *cb {
                            let at = b.iter().zip(cb.iter()).position(|(x, y)| x != y);
                            out.fail(
                                format!("output-depends-on-call-pattern:{front:?}"),
                                format!(
                                    "{front:?} chunks {:?}{}: {} bytes vs canonical {} bytes, first difference at {:?} (repeat {rep})",
                                    &chunks[..chunks.len().min(8)],
                                    if has_tail { " +tail" } else { "" },
                                    b.len(),
                                    cb.len(),
                                    at
                                ),
                            );
                            break;
                        }
                    }
                    (Ok(Err(e)), Ok(_)) => {
                        out.fail(
                            format!("chunked-encode-error:{front:?}:{}:{}", e.stage(), strip_digits(e.text())),
                            format!("{front:?} chunks {:?}: {e:?} although the one-call encoding succeeds", &chunks[..chunks.len().min(8)]),
                        );
                        break;
                    }
                    (Ok(Ok(_)), Err(e)) => {
                        out.fail(
                            format!("chunked-encode-succeeds-canonical-fails:{front:?}"),
                            format!("{front:?}: succeeds although the one-call encoding fails with {e:?}"),
                        );
                        break;
                    }
                    (Ok(Err(_)), Err(_)) => {}
                }
            }
        }
        out
    }
    fn sample(&self, c: &ChunkCase) -> serde_json::Value {
        serde_json::json!({"bps": c.recipe.bps, "channels": c.recipe.chans.len(), "frames": c.recipe.frames, "block_size": c.opts.block_size,
            "extra": c.extra, "partial_bytes": c.partial_bytes,
            "runs": c.runs.iter().map(|(f, ch)| format!("{f:?}:{:?}", &ch[..ch.len().min(6)])).collect::<Vec<_>>()})
    }
}

pub fn runs_strategy() -> BoxedStrategy<Vec<(Front, Vec<usize>)>> {
    let chunks = prop_oneof![
        2 => proptest::collection::vec(1usize..40, 1..6),
        2 => proptest::collection::vec(0usize..400, 1..5),
        1 => Just(vec![1usize]),
        1 => Just(vec![]),
        1 => proptest::collection::vec(prop_oneof![Just(0usize), 1usize..5000], 1..4),
    ];
    proptest::collection::vec((proptest::sample::select(&FRONTS[..]), chunks), 2..6).boxed()
}

pub fn chunk_case_strategy() -> BoxedStrategy<ChunkCase> {
    (opts::opts_strategy(opts::small_block_strategy()), runs_strategy(), proptest::collection::vec(-100i32..100, 0..8), 0u8..4, prop_oneof![6 => Just(false), 1 => Just(true)])
        .prop_flat_map(|(o, runs, extra, partial_bytes, tiny)| {
            let frames = if tiny { (0u32..3).boxed() } else { opts::frames_strategy(o.block_size, 4) };
            pcm::recipe_strategy(pcm::channels_strategy(), frames).prop_map(move |recipe| ChunkCase {
                recipe,
                opts: o.clone(),
                extra: extra.clone(),
                partial_bytes,
                runs: runs.clone(),
            })
        })
        .boxed()
}

/// Exhaustive 2-way and 3-way splits of a small input.
pub fn split_case(i: u64) -> Option<ChunkCase> {
    // 6 base inputs x 4 fronts x splits
    let base = (i % 6) as usize;
    let mut i = i / 6;
    let front = FRONTS[(i % 4) as usize];
    i /= 4;
    let (channels, bps, frames, bs): (u8, u8, u32, u16) = [(1, 16, 40, 16), (2, 16, 24, 16), (2, 24, 16, 16), (3, 8, 30, 17), (2, 12, 20, 16), (1, 32, 24, 16)][base];
    let unit = match front {
        Front::BytesLE | Front::BytesBE => (bps as usize).div_ceil(8) * channels as usize,
        Front::Samples => channels as usize,
        Front::Channels => 1,
    };
    let total_units = frames as usize * unit;
    let n = total_units.min(96);
    // (a, b) with a <= b <= n : first call a units, second b - a, rest
    let pairs = (n + 1) * (n + 2) / 2;
    if i as usize >= pairs {
        return None;
    }
    let mut k = i as usize;
    let mut a = 0usize;
    while k > n - a {
        k -= n - a + 1;
        a += 1;
    }
    let b = a + k;
    let chans = (0..channels).map(|c| ChanRecipe { kind: if c == 0 { Kind::Noise { amp: bps - 2 } } else { Kind::Sines { n: 2, amp: bps - 2, noise: 1 } }, wasted: 0, relation: 0 }).collect();
    let mut o = EncOpts::small(bs);
    o.seek = Seek::Frames(1);
    o.declare_total = base % 2 == 0;
    let chunks = vec![a, b - a, 100_000];
    Some(ChunkCase {
        recipe: Recipe { bps, rate: 44100, frames, seed: base as u64 + 99, chans, seg: 0, ms_mix: 0 },
        opts: o,
        extra: if base % 2 == 1 && channels > 1 { vec![1] } else { vec![] },
        partial_bytes: if base == 2 { 1 } else { 0 },
        runs: vec![(front, chunks)],
    })
}

pub const RULE: &str = "metamorphic: for fixed PCM + options, the file produced by each (front-end, sequence of write-call sizes) - \
including empty writes, 1-unit writes, calls ending inside a sample or inside a PCM frame, and a trailing partial PCM frame / partial \
sample - must be byte-identical to the one-call encoding of the whole PCM frames, on two repeated runs; inputs with less than one PCM \
frame must give an error or a valid result, never a panic. Small inputs: every 2- and 3-way split (first two call sizes 0..=96 units) \
is enumerated for each front-end. Non-trivial = a call size that is not a multiple of the PCM-frame size, or a write that straddles a \
block boundary. Distinct = digest of the case.";

pub fn run(ctx: &Ctx) {
    ctx.set_rule(RULE);
    ctx.assume("samples fit the declared depth; a trailing partial PCM frame is only fed when no total is declared");
    let t = ctx.tier;
    let checked = crate::engine::profile() == "checked";
    let eng = Chunking { name: "chunking" };
    ctx.regress(&eng);
    let ex = Chunking { name: "split-exhaustive" };
    ctx.regress(&ex);
    let pairs = 97 * 98 / 2;
    let total = 6 * 4 * pairs as u64;
    let stride = match (t, checked) {
        (Tier::Quick, false) => 1,
        (Tier::Quick, true) => 5,
        (Tier::Thorough, _) => 1,
    };
    ctx.enumerate(&ex, total / stride, |i| split_case(i * stride));
    ctx.set_exhaustive("split-exhaustive", stride == 1, "6 small inputs x 4 front-ends x every (first, second) call size pair with first+second <= 96 units, remainder in a third call");
    let n = match (t, checked) {
        (Tier::Quick, false) => 150_000,
        (Tier::Quick, true) => 30_000,
        (Tier::Thorough, false) => 4_000_000,
        (Tier::Thorough, true) => 800_000,
    };
    ctx.search(&eng, n, chunk_case_strategy);
    let _ = c01::RULE;
}

pub fn engines() -> Vec<Box<dyn crate::engine::DynEngine>> {
    vec![Box::new(Chunking { name: "chunking" }), Box::new(Chunking { name: "split-exhaustive" })]
}
