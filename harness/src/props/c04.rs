//! C04 — decoding arbitrary bytes never panics, hangs or allocates without bound.

use super::c01::strip_digits;
use super::c03::frame_to_pcm;
use crate::codec::{self, ReaderKind};
use crate::engine::{Ctx, Engine, Fail, Outcome, Tier};
use crate::framegen::{self, Chooser, GenStream};
use crate::iow::{HANG_MSG, SegReader};
use crate::mutant::{self, N_CLASSES};
use crate::pcm::Rng;
use crate::refdec::{self, Cfg};
use crate::util::{guarded, hexbytes, measure_alloc};
use flac_codec::byteorder::LittleEndian;
use flac_codec::decode::{FlacByteReader, FlacChannelReader, FlacSampleReader, FlacStreamReader, verify_reader};
use flac_codec::encode::{SeekTableInterval, generate_seektable};
use flac_codec::metadata::Streaminfo;
use flac_codec::stream::{Frame, FrameHeader, FrameIterator};
use proptest::prelude::*;
use serde::{Deserialize, Serialize};
use std::io::Cursor;

pub const ALLOC_BASE: usize = 64 << 20;
pub const ALLOC_PER_BYTE: usize = 64;

fn header_level(e: &str) -> bool {
    const H: &[&str] = &[
        "invalid frame sync code",
        "CRC-8 mismatch",
        "missing FLAC tag",
        "STREAMINFO block not first",
        "invalid frame block size",
        "invalid frame sample rate",
        "invalid frame channel assignment",
        "invalid frame bits-per-sample",
        "invalid frame number",
        "failed to fill whole buffer",
        "eof looking for frame sync",
        "sample rate undefined for subset",
        "bits-per-sample undefined for subset",
        "reserved metadata block",
        "invalid metadata block",
    ];
    H.iter().any(|h| e.contains(h))
}

struct Tracker<'a> {
    out: &'a mut Outcome,
    len: usize,
    deep: bool,
}

impl Tracker<'_> {
    /// Runs one entry point under the totality oracle. `f` returns Ok(description) / Err(error text).
    fn run(&mut self, what: &'static str, f: impl FnOnce() -> Result<u64, String>) {
        let (r, peak) = measure_alloc(|| guarded(f));
        self.out.evals += 1;
        match r {
            Err(p) => {
                if p.msg.contains("FV_HANG") {
                    self.out.fail(format!("hang:{what}"), format!("{what}: {HANG_MSG}"));
                } else {
                    self.out.fails.push(Fail::panic("panic", &p));
                }
            }
            Ok(Ok(n)) => {
                if n > 0 {
                    self.deep = true;
                }
            }
            Ok(Err(e)) => {
                if !header_level(&e) {
                    self.deep = true;
                }
            }
        }
        if peak > ALLOC_BASE + ALLOC_PER_BYTE * self.len {
            self.out.fail(format!("alloc:{what}"), format!("{what}: peak heap {peak} bytes for a {}-byte input", self.len));
        }
    }
}

/// All file-level entry points on `bytes`.
pub fn exercise_file(bytes: &[u8], out: &mut Outcome) {
    let len = bytes.len();
    let mut t = Tracker { out, len, deep: false };
    for (what, kind, rs) in [
        ("FlacSampleReader::fill_buf", ReaderKind::Sample, 0usize),
        ("FlacChannelReader", ReaderKind::Channel, 0),
        ("FlacByteReader<BE>", ReaderKind::ByteBE, 7),
        ("FlacSampleIterator", ReaderKind::SampleIter, 0),
    ] {
        t.run(what, || {
            let (n, err) = codec::drain_with(SegReader::new(bytes.to_vec()), kind, rs, bytes.len())?;
            match err {
                Some(e) if n == 0 => Err(e),
                _ => Ok(n),
            }
        });
    }
    // seeking is a decoding entry point too: a hostile SEEKTABLE, STREAMINFO total or frame must
    // give Ok or Err for any target, and a read after the seek likewise
    t.run("FlacSampleReader::seek", || {
        let mut rd = FlacSampleReader::new_seekable(Cursor::new(bytes)).map_err(|e| e.to_string())?;
        let mut ok = 0;
        for target in [1u64, 37, 1 << 20, u64::MAX >> 1, 0] {
            if rd.seek(target).is_ok() {
                ok += 1;
            }
            if let Ok(b) = rd.fill_buf() {
                let n = b.len();
                rd.consume(n.min(5));
            }
        }
        Ok(ok)
    });
    t.run("FlacChannelReader::seek", || {
        let mut rd = FlacChannelReader::new_seekable(Cursor::new(bytes)).map_err(|e| e.to_string())?;
        let mut ok = 0;
        for target in [2u64, 1000, u64::MAX, 0] {
            if rd.seek(target).is_ok() {
                ok += 1;
            }
            let _ = rd.fill_buf().map(|c| c.len());
        }
        Ok(ok)
    });
    t.run("FlacByteReader::seek", || {
        use std::io::{Read, Seek, SeekFrom};
        let mut rd = FlacByteReader::<_, LittleEndian>::new_seekable(Cursor::new(bytes)).map_err(|e| e.to_string())?;
        let mut ok = 0;
        let mut buf = [0u8; 11];
        for target in [SeekFrom::Start(3), SeekFrom::End(-1), SeekFrom::Current(7), SeekFrom::Start(u64::MAX >> 2), SeekFrom::End(i64::MIN), SeekFrom::Current(-2), SeekFrom::Start(0)] {
            if rd.seek(target).is_ok() {
                ok += 1;
            }
            let _ = rd.read(&mut buf);
        }
        Ok(ok)
    });
    t.run("verify_reader", || verify_reader(SegReader::new(bytes.to_vec())).map(|_| 1).map_err(|e| e.to_string()));
    t.run("FrameIterator+Subframe::decode", || {
        let it = FrameIterator::new(SegReader::new(bytes.to_vec())).map_err(|e| e.to_string())?;
        let mut n = 0u64;
        let mut first_err = None;
        for (i, r) in it.enumerate() {
            match r {
                Ok((f, _)) => {
                    let _ = frame_to_pcm(&f);
                    n += 1;
                }
                Err(e) => {
                    // keep going: an iterator that repeats an error forever hangs every `for` loop over it
                    first_err.get_or_insert(e.to_string());
                }
            }
            if i > bytes.len() + 16 {
                panic!("FV_HANG: FrameIterator yields more items than the input has bytes");
            }
        }
        match first_err {
            Some(e) if n == 0 => Err(e),
            _ => Ok(n),
        }
    });
    t.run("generate_seektable", || {
        generate_seektable(SegReader::new(bytes.to_vec()), SeekTableInterval::Frames(1.try_into().unwrap()))
            .map(|t| t.points.len() as u64)
            .map_err(|e| e.to_string())
    });
    t.run("metadata::read_blocks", || {
        let mut n = 0;
        let mut first_err = None;
        for b in flac_codec::metadata::read_blocks(SegReader::new(bytes.to_vec())) {
            if let Err(e) = b {
                first_err.get_or_insert(e.to_string());
            }
            n += 1;
            if n > bytes.len() as u64 + 16 {
                panic!("FV_HANG: read_blocks yields more items than the input has bytes");
            }
        }
        match first_err {
            Some(e) => Err(e),
            None => Ok(0),
        }
    });
    if t.deep {
        t.out.nontrivial = true;
        t.out.label("reached-subframe-parser");
    }
}

/// All frame-level entry points on `bytes` (a run of bare frames / garbage).
pub fn exercise_frames(bytes: &[u8], si: Option<&Streaminfo>, out: &mut Outcome) {
    let len = bytes.len();
    let mut t = Tracker { out, len, deep: false };
    t.run("FlacStreamReader::read", || {
        let mut rd = FlacStreamReader::new(crate::iow::SplitBuf::new(bytes.to_vec(), vec![]));
        let mut n = 0u64;
        let mut calls = 0usize;
        loop {
            calls += 1;
            if calls > bytes.len() + 16 {
                panic!("FV_HANG: FlacStreamReader::read called more often than the input has bytes without reaching the end");
            }
            match rd.read() {
                Ok(_) => n += 1,
                Err(flac_codec::Error::Io(e)) if e.kind() == std::io::ErrorKind::UnexpectedEof => break,
                Err(e) => {
                    if !header_level(&e.to_string()) {
                        n += 1;
                    }
                }
            }
        }
        Ok(n)
    });
    t.run("Frame::read_subset+decode", || {
        let f = Frame::read_subset(&mut Cursor::new(bytes)).map_err(|e| e.to_string())?;
        let _ = frame_to_pcm(&f);
        Ok(1)
    });
    t.run("FrameHeader::read_subset", || FrameHeader::read_subset(&mut Cursor::new(bytes)).map(|_| 0).map_err(|e| e.to_string()));
    if let Some(si) = si {
        t.run("Frame::read+decode", || {
            let f = Frame::read(&mut Cursor::new(bytes), si).map_err(|e| e.to_string())?;
            let _ = frame_to_pcm(&f);
            Ok(1)
        });
        t.run("FrameHeader::read", || FrameHeader::read(&mut Cursor::new(bytes), si).map(|_| 0).map_err(|e| e.to_string()));
    }
    if t.deep {
        t.out.nontrivial = true;
        t.out.label("reached-subframe-parser");
    }
}

pub fn streaminfo_of(bytes: &[u8]) -> Option<Streaminfo> {
    flac_codec::metadata::read_info(Cursor::new(bytes)).ok()
}

// ---------------------------------------------------------------------------------------------
// (a) grammar mutants with valid checksums

#[derive(Serialize, Deserialize, Clone, Debug, Hash, PartialEq, Eq)]
pub struct MutCase {
    pub seed: u64,
    pub low_depth: bool,
    pub max_frames: u8,
    pub max_bs: u32,
    /// up to three (class, frame pick) mutations
    pub muts: Vec<(u8, u8)>,
}

pub fn build_mutant(c: &MutCase) -> (GenStream, Vec<mutant::Mutant>) {
    let mut rng = Rng(c.seed);
    let mut gs = framegen::gen_stream(&mut rng, c.low_depth, c.max_frames.max(1) as usize, c.max_bs.max(16));
    let mut applied = vec![];
    for (class, pick) in &c.muts {
        let nf = gs.irs.len();
        let fi = (*pick as usize * nf) >> 8;
        // try the requested class, then the following ones until one applies
        for k in 0..N_CLASSES {
            let cl = (*class as u64 + k) % N_CLASSES;
            if let Some(m) = mutant::mutate(&mut gs, &mut rng, cl, fi.min(nf - 1)) {
                applied.push(m);
                break;
            }
        }
    }
    mutant::reserialize(&mut gs);
    (gs, applied)
}

/// A generated (valid or mutated) stream with independently generated metadata blocks of every
/// type spliced in behind STREAMINFO, optionally with hostile edits: what a reader sees before it
/// reaches the first frame is part of "every byte string" too.
#[derive(Serialize, Deserialize, Clone, Debug, Hash, PartialEq, Eq)]
pub struct MetaStreamCase {
    pub stream: MutCase,
    pub blocks: Vec<crate::refmeta::RBlock>,
    /// (position selector, byte) overwrites inside the spliced metadata
    pub pokes: Vec<(u16, u8)>,
}

pub fn build_meta_stream(c: &MetaStreamCase) -> Vec<u8> {
    let (gs, _) = build_mutant(&c.stream);
    let b = &gs.bytes;
    let ff = gs.first_frame.min(b.len());
    if ff < 42 {
        return b.clone();
    }
    // existing metadata with every last-block flag cleared
    let mut meta = b[..ff].to_vec();
    let mut pos = 4usize;
    while pos + 4 <= ff {
        meta[pos] &= 0x7F;
        let len = ((meta[pos + 1] as usize) << 16) | ((meta[pos + 2] as usize) << 8) | meta[pos + 3] as usize;
        pos += 4 + len;
    }
    let splice_from = meta.len();
    let extra: Vec<&crate::refmeta::RBlock> = c.blocks.iter().filter(|x| x.type_code() != 0).collect();
    if extra.is_empty() {
        // nothing to add: restore the flag on the last original block
        return b.clone();
    }
    for (i, x) in extra.iter().enumerate() {
        let p = x.payload();
        let p = &p[..p.len().min((1 << 24) - 1)];
        meta.extend_from_slice(&framegen::block_header(i + 1 == extra.len(), x.type_code(), p.len()));
        meta.extend_from_slice(p);
    }
    let span = meta.len() - splice_from;
    for (sel, v) in &c.pokes {
        let at = splice_from + ((*sel as usize * span) >> 16);
        if at < meta.len() {
            meta[at] = *v;
        }
    }
    meta.extend_from_slice(&b[ff..]);
    meta
}

pub struct MetaStream;

impl Engine for MetaStream {
    type Case = MetaStreamCase;
    fn name(&self) -> &'static str {
        "metadata-in-front-of-frames"
    }
    fn check(&self, c: &MetaStreamCase) -> Outcome {
        let mut out = Outcome::new();
        out.evals = 0;
        let bytes = build_meta_stream(c);
        for x in &c.blocks {
            out.label(match x.type_code() {
                1 => "meta:padding",
                2 => "meta:application",
                3 => "meta:seektable",
                4 => "meta:vorbis-comment",
                5 => "meta:cuesheet",
                6 => "meta:picture",
                0 => "meta:streaminfo-dropped",
                _ => "meta:unknown-type",
            });
        }
        if !c.pokes.is_empty() {
            out.label("metadata-poked");
        }
        if bytes.len() <= 1 << 20 {
            exercise_file(&bytes, &mut out);
        }
        out
    }
    fn sample(&self, c: &MetaStreamCase) -> serde_json::Value {
        serde_json::json!({"stream": c.stream, "blocks": c.blocks.iter().map(|b| b.type_code()).collect::<Vec<_>>(), "pokes": c.pokes.len()})
    }
}

pub fn meta_stream_strategy() -> BoxedStrategy<MetaStreamCase> {
    (
        mut_case_strategy(),
        crate::metagen::rlist_strategy(),
        prop_oneof![2 => Just(vec![]), 1 => proptest::collection::vec((any::<u16>(), any::<u8>()), 1..4)],
        any::<bool>(),
    )
        .prop_map(|(mut stream, blocks, pokes, clean)| {
            if clean {
                stream.muts.clear();
            }
            MetaStreamCase { stream, blocks, pokes }
        })
        .boxed()
}

pub fn mut_case_strategy() -> BoxedStrategy<MutCase> {
    (
        any::<u64>(),
        prop_oneof![9 => Just(false), 1 => Just(true)],
        1u8..=4,
        prop_oneof![5 => 16u32..=48, 3 => 16u32..=256, 1 => 16u32..=4096],
        proptest::collection::vec((0u8..N_CLASSES as u8, any::<u8>()), 1..=3),
    )
        .prop_map(|(seed, low_depth, max_frames, max_bs, muts)| MutCase { seed, low_depth, max_frames, max_bs, muts })
        .boxed()
}

pub struct GrammarMutants;

impl Engine for GrammarMutants {
    type Case = MutCase;
    fn name(&self) -> &'static str {
        "grammar-mutants"
    }
    fn check(&self, c: &MutCase) -> Outcome {
        let mut out = Outcome::new();
        out.evals = 0;
        let (gs, applied) = build_mutant(c);
        for m in &applied {
            out.label(m.class);
        }
        exercise_file(&gs.bytes, &mut out);
        // the mutated frames as bare frames too
        let si = streaminfo_of(&gs.bytes);
        for m in &applied {
            if let Some((off, len, _, _)) = gs.frames.get(m.frame) {
                exercise_frames(&gs.bytes[*off..off + len], si.as_ref(), &mut out);
            }
        }
        out
    }
    fn sample(&self, c: &MutCase) -> serde_json::Value {
        let (gs, applied) = build_mutant(c);
        serde_json::json!({"case": c, "classes": applied.iter().map(|m| m.class).collect::<Vec<_>>(), "bytes": gs.bytes.len(),
            "hex_prefix": crate::util::hex(&gs.bytes[..gs.bytes.len().min(96)])})
    }
}

// ---------------------------------------------------------------------------------------------
// (b) byte mutations with checksum repair, (c) raw bytes

#[derive(Serialize, Deserialize, Clone, Debug, Hash, PartialEq, Eq)]
pub enum ByteMut {
    Flip { pos: u32, bit: u8 },
    Set { pos: u32, val: u8 },
    Insert { pos: u32, val: u8 },
    Delete { pos: u32 },
    Truncate { len: u32 },
    /// copy `len` bytes from `src` over `dst`
    Splice { src: u32, dst: u32, len: u16 },
}

#[derive(Serialize, Deserialize, Clone, Debug, Hash, PartialEq, Eq)]
pub struct ByteMutCase {
    pub seed: u64,
    pub max_bs: u32,
    pub muts: Vec<ByteMut>,
    pub repair: bool,
}

fn idx(pos: u32, len: usize) -> usize {
    if len == 0 { 0 } else { ((pos as u64 * len as u64) >> 32) as usize }
}

/// Length of the frame header starting at `b` (through the CRC-8 byte), derived from its codes.
pub fn header_len(b: &[u8]) -> Option<usize> {
    if b.len() < 5 {
        return None;
    }
    let bs_code = b[2] >> 4;
    let rate_code = b[2] & 0xF;
    let lead = b[4];
    let numlen = if lead & 0x80 == 0 {
        1
    } else {
        let ones = lead.leading_ones() as usize;
        if !(2..=7).contains(&ones) {
            return None;
        }
        ones
    };
    let mut n = 4 + numlen;
    n += match bs_code {
        6 => 1,
        7 => 2,
        _ => 0,
    };
    n += match rate_code {
        12 => 1,
        13 | 14 => 2,
        _ => 0,
    };
    Some(n + 1)
}

pub fn apply_byte_muts(base: &GenStream, muts: &[ByteMut], repair: bool) -> Vec<u8> {
    let mut b = base.bytes.clone();
    let mut same_len = true;
    for m in muts {
        let n = b.len();
        match m {
            ByteMut::Flip { pos, bit } => {
                if n > 0 {
                    b[idx(*pos, n)] ^= 1 << (bit % 8);
                }
            }
            ByteMut::Set { pos, val } => {
                if n > 0 {
                    b[idx(*pos, n)] = *val;
                }
            }
            ByteMut::Insert { pos, val } => {
                b.insert(idx(*pos, n + 1).min(n), *val);
                same_len = false;
            }
            ByteMut::Delete { pos } => {
                if n > 0 {
                    b.remove(idx(*pos, n));
                    same_len = false;
                }
            }
            ByteMut::Truncate { len } => {
                b.truncate(idx(*len, n + 1));
                same_len = false;
            }
            ByteMut::Splice { src, dst, len } => {
                if n > 0 {
                    let s = idx(*src, n);
                    let d = idx(*dst, n);
                    let l = (*len as usize).min(n - s).min(n - d);
                    let tmp = b[s..s + l].to_vec();
                    b[d..d + l].copy_from_slice(&tmp);
                }
            }
        }
    }
    if repair && same_len {
        // recompute both checksums of every frame of the original frame map
        for (off, len, _, _) in &base.frames {
            if off + len > b.len() || *len < 4 {
                continue;
            }
            if let Some(h) = header_len(&b[*off..off + len]) {
                if h < *len {
                    b[off + h - 1] = refdec::crc8(&b[*off..off + h - 1]);
                }
            }
            let c = refdec::crc16(&b[*off..off + len - 2]);
            b[off + len - 2] = (c >> 8) as u8;
            b[off + len - 1] = c as u8;
        }
    }
    b
}

pub fn byte_mut_strategy() -> BoxedStrategy<ByteMut> {
    prop_oneof![
        4 => (any::<u32>(), 0u8..8).prop_map(|(pos, bit)| ByteMut::Flip { pos, bit }),
        3 => (any::<u32>(), any::<u8>()).prop_map(|(pos, val)| ByteMut::Set { pos, val }),
        1 => (any::<u32>(), prop_oneof![Just(0xFFu8), Just(0u8), any::<u8>()]).prop_map(|(pos, val)| ByteMut::Insert { pos, val }),
        1 => any::<u32>().prop_map(|pos| ByteMut::Delete { pos }),
        1 => any::<u32>().prop_map(|len| ByteMut::Truncate { len }),
        1 => (any::<u32>(), any::<u32>(), 1u16..64).prop_map(|(src, dst, len)| ByteMut::Splice { src, dst, len }),
    ]
    .boxed()
}

pub struct ByteMutants;

impl Engine for ByteMutants {
    type Case = ByteMutCase;
    fn name(&self) -> &'static str {
        "byte-mutants"
    }
    fn check(&self, c: &ByteMutCase) -> Outcome {
        let mut out = Outcome::new();
        out.evals = 0;
        let mut rng = Rng(c.seed);
        let gs = framegen::gen_stream(&mut rng, false, 3, c.max_bs.max(16));
        let bytes = apply_byte_muts(&gs, &c.muts, c.repair);
        out.label(if c.repair { "checksums-repaired" } else { "checksums-stale" });
        exercise_file(&bytes, &mut out);
        if bytes.len() > gs.first_frame {
            let si = streaminfo_of(&bytes);
            exercise_frames(&bytes[gs.first_frame..], si.as_ref(), &mut out);
        }
        out
    }
}

#[derive(Serialize, Deserialize, Clone, Debug, Hash, PartialEq, Eq)]
pub struct RawCase {
    #[serde(with = "hexbytes")]
    pub bytes: Vec<u8>,
}

pub struct RawBytes {
    pub name: &'static str,
}

impl Engine for RawBytes {
    type Case = RawCase;
    fn name(&self) -> &'static str {
        self.name
    }
    fn check(&self, c: &RawCase) -> Outcome {
        let mut out = Outcome::new();
        out.evals = 0;
        exercise_file(&c.bytes, &mut out);
        exercise_frames(&c.bytes, None, &mut out);
        out
    }
}

/// Small corpus of valid files for the exhaustive flip/truncation sweep.
pub fn small_corpus(n: usize, max_bs: u32) -> Vec<GenStream> {
    let mut v = vec![];
    let mut seed = 0xC0FFEEu64;
    while v.len() < n {
        seed = seed.wrapping_mul(6364136223846793005).wrapping_add(1442695040888963407);
        let mut rng = Rng(seed);
        let gs = framegen::gen_stream(&mut rng, false, 2, max_bs);
        if gs.bytes.len() <= 700 {
            v.push(gs);
        }
        if seed == 0 {
            break;
        }
    }
    v
}

pub const RULE: &str = "inputs: (a) grammar mutants - a valid generated stream with 1-3 fields of its frame IR forced to \
illegal/extreme values (38 classes: reserved codes, order > block size, any partition order, wasted bits >= depth, precision 1111, \
negative shift, huge unary runs, extreme accumulators, STREAMINFO disagreement ...), both CRCs recomputed; (b) byte mutations \
(flip/set/insert/delete/truncate/splice) of valid files with CRC-8/CRC-16 repaired from the frame map; (c) every single-bit \
flip and every truncation of a corpus of small files, unrepaired; (d) raw bytes. Each input goes through 8 file-level and up to 5 \
frame-level entry points; oracle: no unwind, bounded polls after end of data, peak heap <= 64 MiB + 64 x input length. \
Non-trivial = at least one entry point got past the frame header (returned data, or failed with a subframe-level error). \
Distinct = digest of the case.";

pub fn run(ctx: &Ctx) {
    ctx.set_rule(RULE);
    ctx.assume("a compute-only infinite loop that never touches the reader is only caught by the watchdog (exit 2)");
    ctx.assume("allocation is accounted per thread by the harness's counting global allocator");
    let t = ctx.tier;
    let checked = crate::engine::profile() == "checked";
    ctx.regress(&GrammarMutants);
    ctx.regress(&ByteMutants);
    ctx.regress_named(&RawBytes { name: "raw-bytes" }, &["flip-truncate-sweep"]);
    let n = match (t, checked) {
        (Tier::Quick, false) => 200_000,
        (Tier::Quick, true) => 120_000,
        (Tier::Thorough, false) => 6_000_000,
        (Tier::Thorough, true) => 3_000_000,
    };
    ctx.search(&GrammarMutants, n, mut_case_strategy);
    let n = match (t, checked) {
        (Tier::Quick, false) => 150_000,
        (Tier::Quick, true) => 100_000,
        (Tier::Thorough, false) => 6_000_000,
        (Tier::Thorough, true) => 3_000_000,
    };
    ctx.search(&ByteMutants, n, || {
        (
            any::<u64>(),
            prop_oneof![4 => 16u32..=40, 1 => 16u32..=300],
            proptest::collection::vec(byte_mut_strategy(), 1..=4),
            prop_oneof![3 => Just(true), 1 => Just(false)],
        )
            .prop_map(|(seed, max_bs, muts, repair)| ByteMutCase { seed, max_bs, muts, repair })
            .boxed()
    });
    // (b') metadata of every type, legal and hostile, spliced in front of the frames
    let n = match (t, checked) {
        (Tier::Quick, false) => 40_000,
        (Tier::Quick, true) => 25_000,
        (Tier::Thorough, false) => 1_500_000,
        (Tier::Thorough, true) => 800_000,
    };
    ctx.regress(&MetaStream);
    ctx.search(&MetaStream, n, meta_stream_strategy);
    // (c) exhaustive flips and truncations of small files
    let nfiles = match (t, checked) {
        (Tier::Quick, false) => 40,
        (Tier::Quick, true) => 30,
        (Tier::Thorough, _) => 400,
    };
    let corpus = small_corpus(nfiles, 24);
    let mut index = vec![];
    let mut total = 0u64;
    for (i, g) in corpus.iter().enumerate() {
        index.push((total, i));
        total += g.bytes.len() as u64 * 8 + g.bytes.len() as u64;
    }
    let sweep = RawBytes { name: "flip-truncate-sweep" };
    ctx.enumerate(&sweep, total, |k| {
        let j = index.partition_point(|(o, _)| *o <= k) - 1;
        let (o, i) = index[j];
        let g = &corpus[i];
        let r = (k - o) as usize;
        let nbits = g.bytes.len() * 8;
        let mut b = g.bytes.clone();
        if r < nbits {
            b[r / 8] ^= 0x80 >> (r % 8);
        } else {
            b.truncate(r - nbits);
        }
        Some(RawCase { bytes: b })
    });
    ctx.set_exhaustive("flip-truncate-sweep", true, &format!("every single-bit flip and every truncation length of {} generated files (<= 700 bytes each)", corpus.len()));
    // (d) raw random bytes with FLAC-ish prefixes
    let n = match (t, checked) {
        (Tier::Quick, _) => 10_000,
        (Tier::Thorough, _) => 400_000,
    };
    ctx.search(&RawBytes { name: "raw-bytes" }, n, || {
        (prop_oneof![Just(0u8), Just(1u8), Just(2u8)], proptest::collection::vec(any::<u8>(), 0..200))
            .prop_map(|(pre, mut v)| {
                let mut b = match pre {
                    0 => vec![],
                    1 => b"fLaC\x80\x00\x00\x22".to_vec(),
                    _ => vec![0xFF, 0xF8],
                };
                b.append(&mut v);
                RawCase { bytes: b }
            })
            .boxed()
    });
    let _ = strip_digits;
}

pub fn engines() -> Vec<Box<dyn crate::engine::DynEngine>> {
    vec![
        Box::new(GrammarMutants),
        Box::new(ByteMutants),
        Box::new(MetaStream),
        Box::new(RawBytes { name: "raw-bytes" }),
        Box::new(RawBytes { name: "flip-truncate-sweep" }),
    ]
}

#[allow(dead_code)]
fn _unused(_: &dyn Chooser, _: &Cfg) {}
