//! C06 — seeking lands exactly on the requested position, for every reader and history.
//! (The history interpreter is shared with C07.)

use super::c01::strip_digits;
use crate::codec::{self, Front};
use crate::engine::{Ctx, Engine, Fail, Outcome, Tier};
use crate::framegen;
use crate::iow::SegReader;
use crate::opts::{EncOpts, Seek};
use crate::pcm::{ChanRecipe, Kind, Pcm, Recipe, Rng};
use crate::util::guarded;
use flac_codec::byteorder::{BigEndian, LittleEndian};
use flac_codec::decode::{FlacByteReader, FlacChannelReader, FlacSampleReader};
use proptest::prelude::*;
use serde::{Deserialize, Serialize};
use std::io::{BufRead, Read, Seek as IoSeek, SeekFrom};

#[derive(Serialize, Deserialize, Clone, Debug, Hash, PartialEq, Eq)]
pub enum FileSpec {
    /// crate-encoded noise
    Enc { seed: u64, channels: u8, bps: u8, rate: u32, bs: u16, frames: u32, seek: Seek },
    /// independent generator (seek tables with placeholders / first point not frame 0, variable blocking ...)
    Gen { seed: u64, max_frames: u8, max_bs: u32 },
}

pub struct BuiltFile {
    pub bytes: Vec<u8>,
    pub pcm: Pcm,
    /// block size of each frame
    pub blocks: Vec<u32>,
    pub total_known: bool,
    pub labels: Vec<&'static str>,
}

pub fn build_file(f: &FileSpec) -> Result<BuiltFile, String> {
    match f {
        FileSpec::Enc { seed, channels, bps, rate, bs, frames, seek } => {
            let full = *bps - 1;
            let chans = (0..*channels).map(|_| ChanRecipe { kind: Kind::Noise { amp: full }, wasted: 0, relation: 0 }).collect();
            let pcm = Recipe { bps: *bps, rate: *rate, frames: *frames, seed: *seed, chans, seg: 0, ms_mix: 0 }.expand();
            let mut o = EncOpts::small(*bs);
            o.seek = seek.clone();
            o.padding = Some(64);
            o.max_lpc = None;
            let bytes = codec::encode_vec(&pcm, &o, Front::Samples, &[]).map_err(|e| format!("{:?}", e))?;
            let mut blocks = vec![];
            let mut left = *frames;
            while left > 0 {
                let b = left.min(*bs as u32);
                blocks.push(b);
                left -= b;
            }
            let mut labels = vec![match seek {
                Seek::None => "seektable:none",
                Seek::Frames(1) => "seektable:every-frame",
                Seek::Frames(_) => "seektable:every-n-frames",
                Seek::Seconds(_) => "seektable:seconds",
                Seek::Default => "seektable:default",
            }];
            labels.push("file:crate-encoded");
            Ok(BuiltFile { bytes, pcm, blocks, total_known: true, labels })
        }
        FileSpec::Gen { seed, max_frames, max_bs } => {
            let mut rng = Rng(*seed);
            let gs = framegen::gen_stream(&mut rng, false, (*max_frames).max(1) as usize, (*max_bs).max(16));
            let pcm = Pcm { channels: gs.params.channels, bps: gs.params.bps, rate: gs.params.rate, data: gs.pcm.clone() };
            let mut labels: Vec<&'static str> = gs
                .labels
                .iter()
                .copied()
                .filter(|l| l.starts_with("seektable") || *l == "variable-blocking" || *l == "total-unknown")
                .collect();
            labels.push("file:independent-generator");
            if !labels.iter().any(|l| l.starts_with("seektable")) {
                labels.push("seektable:none");
            }
            Ok(BuiltFile { bytes: gs.bytes.clone(), pcm, blocks: gs.frames.iter().map(|f| f.3).collect(), total_known: gs.total_known, labels })
        }
    }
}

#[derive(Serialize, Deserialize, Clone, Copy, Debug, Hash, PartialEq, Eq)]
pub enum ReaderSel {
    ByteLE,
    ByteBE,
    Sample,
    Channel,
}

/// A position selector resolved against the concrete file: base + delta.
#[derive(Serialize, Deserialize, Clone, Copy, Debug, Hash, PartialEq, Eq)]
pub struct Target {
    /// 0 start, 1 a frame boundary, 2 middle of a frame, 3 end, 4 far beyond, 5 anywhere
    pub sel: u8,
    pub frac: u16,
    pub delta: i8,
}

#[derive(Serialize, Deserialize, Clone, Debug, Hash, PartialEq, Eq)]
pub enum Op {
    Read { n: u16 },
    Fill,
    /// consume frac/256 of what the last fill returned
    Consume { frac: u8 },
    /// absolute seek (byte reader: SeekFrom::Start; sample readers: seek(sample))
    SeekStart(Target),
    /// byte reader only: relative to the current position, target resolved then converted to a delta
    SeekCurrent(Target),
    /// byte reader only: SeekFrom::End(target - len)
    SeekEnd(Target),
    /// byte reader only: SeekFrom::Current(0) position query
    Tell,
    /// byte reader only: Seek::seek_relative(target - current position)
    SeekRelative(Target),
}

#[derive(Serialize, Deserialize, Clone, Debug, Hash, PartialEq, Eq)]
pub struct HistCase {
    pub file: FileSpec,
    pub reader: ReaderSel,
    pub ops: Vec<Op>,
    /// segmentation of the underlying source (empty = unsegmented)
    pub segs: Vec<u16>,
    /// extra polls after the end of stream was first signalled (C07)
    pub extra_polls: u8,
    /// sample reader only: after the listed operations turn the reader into its iterator and
    /// drain it; the items must be exactly the rest of the stream
    #[serde(default)]
    pub iterate_tail: bool,
    /// sample reader only: after the listed operations call read_to_end(); it must deliver exactly
    /// the rest, and every later read / fill_buf / iteration must signal the end
    #[serde(default)]
    pub read_to_end_tail: bool,
    /// junk bytes in front of the FLAC stream; the source is positioned behind them when the reader
    /// is opened (the "skip the ID3 tag first" use of the constructors)
    #[serde(default)]
    pub prefix: u16,
}

/// resolves a target to a position in `unit`s (unit = bytes per PCM frame for the byte reader, 1 for sample readers)
fn resolve(t: &Target, blocks: &[u32], unit: u64, len: u64) -> i128 {
    let total: u64 = blocks.iter().map(|b| *b as u64).sum();
    let nb = blocks.len().max(1);
    let fi = (t.frac as usize * nb) >> 16;
    let start: u64 = blocks[..fi.min(blocks.len())].iter().map(|b| *b as u64).sum();
    let base: i128 = match t.sel % 6 {
        0 => 0,
        1 => (start * unit) as i128,
        2 => ((start + blocks.get(fi).copied().unwrap_or(0) as u64 / 2) * unit) as i128 + (t.frac as i128 % unit.max(1) as i128),
        3 => len as i128,
        4 => len as i128 + 1 + (t.frac as i128) * 1000,
        _ => ((t.frac as u128 * (len as u128 + 1)) >> 16) as i128,
    };
    let _ = total;
    base + t.delta as i128
}

enum Rd {
    BLE(FlacByteReader<SegReader, LittleEndian>),
    BBE(FlacByteReader<SegReader, BigEndian>),
    S(FlacSampleReader<SegReader>),
    C(FlacChannelReader<SegReader>),
}

/// Runs the history against the model. `seekable` selects `new_seekable` vs `new`.
pub fn run_history(c: &HistCase, seekable: bool, out: &mut Outcome) {
    let bf = match guarded(|| build_file(&c.file)) {
        Ok(Ok(b)) => b,
        Ok(Err(e)) => {
            out.label("file-build-failed");
            out.fail(format!("file-build:{}", strip_digits(&e)), e);
            return;
        }
        Err(p) => {
            out.fails.push(Fail::panic("file-build-panic", &p));
            return;
        }
    };
    for l in &bf.labels {
        out.label(l);
    }
    let ch = bf.pcm.channels as usize;
    let bytes_per = bf.pcm.bytes_per_sample();
    out.label(match bytes_per {
        1 => "width:1-byte",
        2 => "width:2-bytes",
        3 => "width:3-bytes",
        _ => "width:4-bytes",
    });
    let mut src = {
        let mut data: Vec<u8> = (0..c.prefix).map(|i| (i as u8).wrapping_mul(41) ^ 0xA7).collect();
        data.extend_from_slice(&bf.bytes);
        SegReader::new(data).with_segs(c.segs.iter().map(|s| *s as usize).collect())
    };
    src.pos = c.prefix as usize;
    if c.prefix > 0 {
        out.label("stream-not-at-offset-0-of-the-source");
    }
    let is_byte = matches!(c.reader, ReaderSel::ByteLE | ReaderSel::ByteBE);
    // the model: the decoded stream as a flat array in the reader's unit
    let model_bytes: Vec<u8> = match c.reader {
        ReaderSel::ByteLE => bf.pcm.to_bytes(false),
        ReaderSel::ByteBE => bf.pcm.to_bytes(true),
        _ => vec![],
    };
    let model_samples: Vec<i32> = if is_byte { vec![] } else { bf.pcm.interleaved() };
    let len: u64 = if is_byte { model_bytes.len() as u64 } else { model_samples.len() as u64 };
    let frames_total = bf.pcm.frames() as u64;
    let opened = guarded(|| -> Result<Rd, String> {
        Ok(match (c.reader, seekable) {
            (ReaderSel::ByteLE, true) => Rd::BLE(FlacByteReader::new_seekable(src).map_err(|e| e.to_string())?),
            (ReaderSel::ByteLE, false) => Rd::BLE(FlacByteReader::new(src).map_err(|e| e.to_string())?),
            (ReaderSel::ByteBE, true) => Rd::BBE(FlacByteReader::new_seekable(src).map_err(|e| e.to_string())?),
            (ReaderSel::ByteBE, false) => Rd::BBE(FlacByteReader::new(src).map_err(|e| e.to_string())?),
            (ReaderSel::Sample, true) => Rd::S(FlacSampleReader::new_seekable(src).map_err(|e| e.to_string())?),
            (ReaderSel::Sample, false) => Rd::S(FlacSampleReader::new(src).map_err(|e| e.to_string())?),
            (ReaderSel::Channel, true) => Rd::C(FlacChannelReader::new_seekable(src).map_err(|e| e.to_string())?),
            (ReaderSel::Channel, false) => Rd::C(FlacChannelReader::new(src).map_err(|e| e.to_string())?),
        })
    });
    let mut rd = match opened {
        Ok(Ok(r)) => r,
        Ok(Err(e)) => {
            out.fail(format!("open-error:{}", strip_digits(&e)), format!("valid file cannot be opened: {e}"));
            return;
        }
        Err(p) => {
            out.fails.push(Fail::panic("open-panic", &p));
            return;
        }
    };
    // model position in the reader's unit (bytes, or interleaved samples); None = unknown
    let mut pos: Option<u64> = Some(0);
    let mut avail: usize = 0; // what the last fill returned and was not consumed yet
    let mut partial = false; // buffer partially consumed
    let mut eof_signalled = false;
    let mut polls_left = c.extra_polls as usize;
    let rname = format!("{:?}", c.reader);
    let fail = |out: &mut Outcome, sig: &str, msg: String| out.fail(format!("{sig}:{rname}"), msg);

    let mut ops: Vec<Op> = c.ops.clone();
    // C07 mode: keep reading to the end, then poll a few more times
    let iterate_tail = c.iterate_tail && c.reader == ReaderSel::Sample;
    let read_to_end_tail = !iterate_tail && c.read_to_end_tail && c.reader == ReaderSel::Sample;
    if !seekable && !iterate_tail && !read_to_end_tail {
        for _ in 0..4096 {
            if c.reader == ReaderSel::Channel {
                ops.push(Op::Fill);
                ops.push(Op::Consume { frac: 255 });
            } else {
                ops.push(Op::Read { n: 4000 });
            }
        }
    }
    let mut i = 0usize;
    while i < ops.len() {
        let op = ops[i].clone();
        i += 1;
        if eof_signalled && !seekable {
            if polls_left == 0 {
                break;
            }
            polls_left -= 1;
        }
        out.evals += 1;
        let step = guarded(|| -> Result<(), (String, String)> {
            match (&op, &mut rd) {
                (Op::Read { n }, Rd::BLE(_) | Rd::BBE(_)) => {
                    let mut buf = vec![0u8; *n as usize];
                    let r = match &mut rd {
                        Rd::BLE(r) => r.read(&mut buf),
                        Rd::BBE(r) => r.read(&mut buf),
                        _ => unreachable!(),
                    };
                    avail = 0;
                    match r {
                        Err(e) => {
                            if pos.is_some() {
                                return Err(("read-error".into(), format!("read({n}) failed on a valid stream at {pos:?}: {e}")));
                            }
                        }
                        Ok(m) => {
                            if m > *n as usize {
                                return Err(("read-overrun".into(), format!("read({n}) returned {m}")));
                            }
                            if let Some(p) = pos {
                                let p = p as usize;
                                if p + m > model_bytes.len() || buf[..m] != model_bytes[p..p + m] {
                                    return Err(("data-mismatch".into(), format!("read({n}) at byte {p} returned {m} bytes that are not the stream's bytes there")));
                                }
                                if m == 0 && *n > 0 && p < model_bytes.len() {
                                    return Err(("premature-eof".into(), format!("read({n}) returned 0 at byte {p} of {}", model_bytes.len())));
                                }
                                if m == 0 && *n > 0 {
                                    eof_signalled = true;
                                }
                                pos = Some((p + m) as u64);
                                partial = m > 0;
                            }
                        }
                    }
                }
                (Op::Read { n }, Rd::S(r)) => {
                    let mut buf = vec![0i32; *n as usize];
                    avail = 0;
                    match r.read(&mut buf) {
                        Err(e) => {
                            if pos.is_some() {
                                return Err(("read-error".into(), format!("read({n}) failed on a valid stream at {pos:?}: {e}")));
                            }
                        }
                        Ok(m) => {
                            if m > *n as usize {
                                return Err(("read-overrun".into(), format!("read({n}) returned {m}")));
                            }
                            if let Some(p) = pos {
                                let p = p as usize;
                                if p + m > model_samples.len() || buf[..m] != model_samples[p..p + m] {
                                    return Err(("data-mismatch".into(), format!("read({n}) at sample {p} returned {m} samples that are not the stream's samples there")));
                                }
                                if m == 0 && *n > 0 && p < model_samples.len() {
                                    return Err(("premature-eof".into(), format!("read({n}) returned 0 at sample {p} of {}", model_samples.len())));
                                }
                                if m == 0 && *n > 0 {
                                    eof_signalled = true;
                                }
                                pos = Some((p + m) as u64);
                                partial = m > 0;
                            }
                        }
                    }
                }
                (Op::Read { .. }, Rd::C(_)) | (Op::Fill, _) => {
                    // fill_buf
                    let got: Result<(usize, bool), String> = match &mut rd {
                        Rd::BLE(r) => r.fill_buf().map_err(|e| e.to_string()).map(|s| {
                            let ok = pos.map(|p| (p as usize) + s.len() <= model_bytes.len() && *s == model_bytes[p as usize..p as usize + s.len()]).unwrap_or(true);
                            (s.len(), ok)
                        }),
                        Rd::BBE(r) => r.fill_buf().map_err(|e| e.to_string()).map(|s| {
                            let ok = pos.map(|p| (p as usize) + s.len() <= model_bytes.len() && *s == model_bytes[p as usize..p as usize + s.len()]).unwrap_or(true);
                            (s.len(), ok)
                        }),
                        Rd::S(r) => r.fill_buf().map_err(|e| e.to_string()).map(|s| {
                            let ok = pos.map(|p| (p as usize) + s.len() <= model_samples.len() && *s == model_samples[p as usize..p as usize + s.len()]).unwrap_or(true);
                            (s.len(), ok)
                        }),
                        Rd::C(r) => r.fill_buf().map_err(|e| e.to_string()).map(|chs| {
                            let n = chs.first().map(|c| c.len()).unwrap_or(0);
                            let mut ok = chs.len() == ch && chs.iter().all(|c| c.len() == n);
                            if let (true, Some(p)) = (ok, pos) {
                                let pf = p as usize / ch; // PCM frame index
                                ok = p as usize % ch == 0 && (pf + n) * ch <= model_samples.len();
                                if ok {
                                    'cmp: for (ci, cdata) in chs.iter().enumerate() {
                                        for (k, v) in cdata.iter().enumerate() {
                                            if model_samples[(pf + k) * ch + ci] != *v {
                                                ok = false;
                                                break 'cmp;
                                            }
                                        }
                                    }
                                }
                            }
                            (n * ch, ok)
                        }),
                    };
                    match got {
                        Err(e) => {
                            avail = 0;
                            if pos.is_some() {
                                return Err(("fill-error".into(), format!("fill_buf failed on a valid stream at {pos:?}: {e}")));
                            }
                        }
                        Ok((n, ok)) => {
                            if !ok {
                                return Err(("data-mismatch".into(), format!("fill_buf at {pos:?} returned {n} units that are not the stream's data there")));
                            }
                            if let Some(p) = pos {
                                if n == 0 && p < len {
                                    return Err(("premature-eof".into(), format!("fill_buf returned nothing at {p} of {len}")));
                                }
                                if n == 0 {
                                    eof_signalled = true;
                                }
                            }
                            avail = n;
                        }
                    }
                }
                (Op::Consume { frac }, _) => {
                    let mut k = (avail * (*frac as usize + 1)) >> 8;
                    if matches!(rd, Rd::C(_)) {
                        k -= k % ch; // whole PCM frames
                    }
                    if k > 0 {
                        match &mut rd {
                            Rd::BLE(r) => r.consume(k),
                            Rd::BBE(r) => r.consume(k),
                            Rd::S(r) => r.consume(k),
                            Rd::C(r) => r.consume(k / ch),
                        }
                        avail -= k;
                        partial = avail > 0;
                        if let Some(p) = pos {
                            pos = Some(p + k as u64);
                        }
                    }
                }
                (Op::Tell, Rd::BLE(_) | Rd::BBE(_)) if seekable => {
                    let r = match &mut rd {
                        Rd::BLE(r) => r.seek(SeekFrom::Current(0)),
                        Rd::BBE(r) => r.seek(SeekFrom::Current(0)),
                        _ => unreachable!(),
                    };
                    match (r, pos) {
                        (Ok(v), Some(p)) if v != p => {
                            return Err(("tell-wrong".into(), format!("seek(Current(0)) returned {v}, the stream is at byte {p}")));
                        }
                        (Err(e), Some(p)) => return Err(("tell-error".into(), format!("seek(Current(0)) failed at byte {p}: {e}"))),
                        _ => {}
                    }
                }
                (Op::SeekRelative(t), Rd::BLE(_) | Rd::BBE(_)) if seekable => {
                    let unit = (bytes_per * ch) as u64;
                    let want = resolve(t, &bf.blocks, unit, len);
                    let Some(p) = pos else { return Ok(()) };
                    let delta = (want - p as i128).clamp(i64::MIN as i128, i64::MAX as i128) as i64;
                    let was_partial = partial || avail > 0;
                    avail = 0;
                    partial = false;
                    let r = match &mut rd {
                        Rd::BLE(r) => r.seek_relative(delta),
                        Rd::BBE(r) => r.seek_relative(delta),
                        _ => unreachable!(),
                    };
                    match r {
                        Ok(()) => {
                            if want < 0 || want as u64 > len {
                                pos = None;
                                return Err(("seek-beyond-accepted".into(), format!("seek_relative({delta}) from byte {p} to byte {want} of a {len}-byte stream returned Ok")));
                            }
                            pos = Some(want as u64);
                            out_label(was_partial, &op, want as u64, unit);
                        }
                        Err(e) => {
                            pos = None;
                            if want >= 0 && want as u64 <= len {
                                return Err(("seek-in-range-failed".into(), format!("seek_relative({delta}) from byte {p} to byte {want} of {len} failed: {e}")));
                            }
                        }
                    }
                }
                (Op::SeekStart(t) | Op::SeekCurrent(t) | Op::SeekEnd(t), _) if seekable => {
                    let unit = if is_byte { (bytes_per * ch) as u64 } else { 1 };
                    let limit = if is_byte { len } else { frames_total };
                    let want = resolve(t, &bf.blocks, unit, limit);
                    let was_partial = partial || avail > 0;
                    avail = 0;
                    partial = false;
                    match &mut rd {
                        Rd::BLE(_) | Rd::BBE(_) => {
                            let sf = match &op {
                                Op::SeekStart(_) => {
                                    if want < 0 {
                                        return Ok(());
                                    }
                                    Some(SeekFrom::Start(want as u64))
                                }
                                Op::SeekCurrent(_) => pos.map(|p| SeekFrom::Current((want - p as i128).clamp(i64::MIN as i128, i64::MAX as i128) as i64)),
                                _ => Some(SeekFrom::End((want - len as i128).clamp(i64::MIN as i128, i64::MAX as i128) as i64)),
                            };
                            let Some(sf) = sf else { return Ok(()) };
                            if matches!(sf, SeekFrom::Current(0)) {
                                return Ok(());
                            }
                            let r = match &mut rd {
                                Rd::BLE(r) => r.seek(sf),
                                Rd::BBE(r) => r.seek(sf),
                                _ => unreachable!(),
                            };
                            let needs_total = matches!(sf, SeekFrom::End(_));
                            match r {
                                Ok(v) => {
                                    if want < 0 || want as u64 > len {
                                        pos = None;
                                        return Err(("seek-beyond-accepted".into(), format!("seek({sf:?}) to byte {want} of a {len}-byte stream returned Ok({v})")));
                                    }
                                    if v != want as u64 {
                                        pos = None;
                                        return Err(("seek-returns-wrong-position".into(), format!("seek({sf:?}) returned {v}, requested byte {want} (stream length {len})")));
                                    }
                                    pos = Some(v);
                                    out_label(was_partial, &op, want as u64, unit);
                                }
                                Err(e) => {
                                    if want >= 0 && want as u64 <= len && !(needs_total && !bf.total_known) && pos.is_some() | !matches!(sf, SeekFrom::Current(_)) {
                                        pos = None;
                                        return Err(("seek-in-range-failed".into(), format!("seek({sf:?}) to byte {want} of {len} failed: {e}")));
                                    }
                                    pos = None;
                                }
                            }
                        }
                        Rd::S(_) | Rd::C(_) => {
                            if !matches!(op, Op::SeekStart(_)) || want < 0 {
                                return Ok(());
                            }
                            let s = want as u64;
                            let r = match &mut rd {
                                Rd::S(r) => r.seek(s).map_err(|e| e.to_string()),
                                Rd::C(r) => r.seek(s).map_err(|e| e.to_string()),
                                _ => unreachable!(),
                            };
                            match r {
                                Ok(()) => {
                                    if s > frames_total {
                                        pos = None;
                                        return Err(("seek-beyond-accepted".into(), format!("seek({s}) beyond the {frames_total}-sample stream returned Ok")));
                                    }
                                    pos = Some(s * ch as u64);
                                    out_label(was_partial, &op, s, 1);
                                }
                                Err(e) => {
                                    pos = None;
                                    if s <= frames_total {
                                        return Err(("seek-in-range-failed".into(), format!("seek({s}) within the {frames_total}-sample stream failed: {e}")));
                                    }
                                }
                            }
                        }
                    }
                }
                _ => {}
            }
            Ok(())
        });
        match step {
            Err(p) => {
                out.fails.push(Fail::panic(&format!("panic:{rname}"), &p));
                return;
            }
            Ok(Err((sig, msg))) => {
                fail(out, &sig, format!("op #{} {:?}: {}", i - 1, op, msg));
                return;
            }
            Ok(Ok(())) => {}
        }
        if let Some(l) = LABEL.with(|l| l.take()) {
            for x in l {
                out.label(x);
            }
            out.nontrivial = true;
        }
    }
    if read_to_end_tail {
        if let (Rd::S(mut r), Some(p)) = (rd, pos) {
            out.label("read_to_end-after-partial-use");
            out.evals += 1;
            let rest = model_samples[(p as usize).min(model_samples.len())..].to_vec();
            let res = guarded(move || -> Result<(Vec<i32>, usize, usize, usize, bool), String> {
                let mut got = vec![];
                let n = r.read_to_end(&mut got).map_err(|e| e.to_string())?;
                // afterwards the end must be signalled by every way of asking
                let mut buf = [0i32; 7];
                let again_read = r.read(&mut buf).map_err(|e| e.to_string())?;
                let again_fill = r.fill_buf().map_err(|e| e.to_string())?.len();
                let mut more = vec![];
                let again_rte = r.read_to_end(&mut more).map_err(|e| e.to_string())?;
                let iter_empty = r.into_iter().next().is_none();
                let _ = n;
                Ok((got, again_read, again_fill, again_rte, iter_empty))
            });
            match res {
                Err(pn) => out.fails.push(Fail::panic(&format!("panic:{rname}"), &pn)),
                Ok(Err(e)) => fail(out, "read_to_end-error", format!("read_to_end on a valid stream from sample {p} failed: {e}")),
                Ok(Ok((got, a, b, c2, it))) => {
                    if got != rest {
                        fail(out, "read_to_end-data-mismatch", format!("read_to_end at interleaved sample {p}: {} samples for the remaining {}", got.len(), rest.len()));
                    } else if a != 0 || b != 0 || c2 != 0 || !it {
                        fail(out, "data-after-end-of-stream", format!("after read_to_end: read -> {a}, fill_buf -> {b}, read_to_end -> {c2}, iterator empty = {it}"));
                    }
                }
            }
        }
        return;
    }
    if iterate_tail {
        if let (Rd::S(r), Some(p)) = (rd, pos) {
            out.label("iterator-after-partial-use");
            out.evals += 1;
            let limit = model_samples.len() + 16;
            let res = guarded(move || -> Result<Vec<i32>, String> {
                let mut got = vec![];
                for s in r {
                    got.push(s.map_err(|e| e.to_string())?);
                    if got.len() > limit {
                        break;
                    }
                }
                Ok(got)
            });
            let rest = &model_samples[(p as usize).min(model_samples.len())..];
            match res {
                Err(pn) => out.fails.push(Fail::panic(&format!("panic:{rname}"), &pn)),
                Ok(Err(e)) => fail(out, "iterate-error", format!("iterating a valid stream from sample {p} failed: {e}")),
                Ok(Ok(got)) => {
                    if got != rest {
                        let at = got.iter().zip(rest).position(|(a, b)| a != b);
                        fail(out, "iterate-data-mismatch", format!("into_iter() at interleaved sample {p}: {} items for the remaining {}, first difference at {:?}", got.len(), rest.len(), at));
                    }
                }
            }
        }
        return;
    }
    // C07: everything must have been delivered exactly once
    if !seekable {
        if let Some(p) = pos {
            if p != len {
                fail(out, "incomplete-delivery", format!("history ended at {p} of {len} units without an end-of-stream signal"));
            }
        }
        if eof_signalled {
            out.label("polled-after-end");
        }
    }
}

thread_local! {
    static LABEL: std::cell::Cell<Option<Vec<&'static str>>> = const { std::cell::Cell::new(None) };
}

fn out_label(was_partial: bool, op: &Op, want: u64, unit: u64) {
    let mut v = vec![];
    if was_partial {
        v.push("seek-with-partially-consumed-buffer");
    }
    if matches!(op, Op::SeekEnd(_)) {
        v.push("seek-end-relative");
    }
    if matches!(op, Op::SeekCurrent(_)) {
        v.push("seek-current-relative");
    }
    if matches!(op, Op::SeekRelative(_)) {
        v.push("seek_relative");
    }
    if unit > 1 && want % unit != 0 {
        v.push("seek-not-pcm-frame-aligned");
    }
    if !v.is_empty() {
        LABEL.with(|l| l.set(Some(v)));
    }
}

pub struct SeekHistory;

impl Engine for SeekHistory {
    type Case = HistCase;
    fn name(&self) -> &'static str {
        "seek-history"
    }
    fn check(&self, c: &HistCase) -> Outcome {
        let mut out = Outcome::new();
        out.evals = 0;
        out.label(match c.reader {
            ReaderSel::ByteLE => "reader:byte-le",
            ReaderSel::ByteBE => "reader:byte-be",
            ReaderSel::Sample => "reader:sample",
            ReaderSel::Channel => "reader:channel",
        });
        run_history(c, true, &mut out);
        // non-trivial also when a seek landed mid-frame (sample readers)
        if c.ops.iter().any(|o| matches!(o, Op::SeekStart(t) if t.sel % 6 == 2)) {
            out.nontrivial = true;
            out.label("seek-mid-frame-target");
        }
        out
    }
}

pub fn file_strategy() -> BoxedStrategy<FileSpec> {
    let seek = prop_oneof![
        2 => Just(Seek::None),
        3 => Just(Seek::Frames(1)),
        2 => (2u32..6).prop_map(Seek::Frames),
        2 => (1u8..4).prop_map(Seek::Seconds),
    ];
    prop_oneof![
        3 => (
            any::<u64>(),
            prop_oneof![2 => Just(1u8), 3 => Just(2u8), 2 => 3u8..=8],
            proptest::sample::select(&[8u8, 12, 16, 20, 24, 32, 13][..]),
            proptest::sample::select(&[16u32, 40, 100, 44100][..]),
            16u16..=64,
            3u32..=40,
            0u32..64,
            seek
        )
            .prop_map(|(seed, channels, bps, rate, bs, nblocks, tail, seek)| FileSpec::Enc {
                seed,
                channels,
                bps,
                rate,
                bs,
                frames: (nblocks - 1) * bs as u32 + 1 + tail % bs as u32,
                seek
            }),
        1 => (any::<u64>(), 3u8..=6, 16u32..=64).prop_map(|(seed, max_frames, max_bs)| FileSpec::Gen { seed, max_frames, max_bs }),
    ]
    .boxed()
}

pub fn target_strategy() -> BoxedStrategy<Target> {
    (
        prop_oneof![1 => Just(0u8), 3 => Just(1u8), 3 => Just(2u8), 2 => Just(3u8), 1 => Just(4u8), 2 => Just(5u8)],
        any::<u16>(),
        prop_oneof![3 => Just(0i8), 1 => Just(1i8), 1 => Just(-1i8), 1 => -5i8..=5],
    )
        .prop_map(|(sel, frac, delta)| Target { sel, frac, delta })
        .boxed()
}

pub fn op_strategy(seek: bool) -> BoxedStrategy<Op> {
    if seek {
        prop_oneof![
            3 => prop_oneof![1u16..8, 1u16..300, Just(0u16)].prop_map(|n| Op::Read { n }),
            2 => Just(Op::Fill),
            2 => any::<u8>().prop_map(|frac| Op::Consume { frac }),
            4 => target_strategy().prop_map(Op::SeekStart),
            1 => target_strategy().prop_map(Op::SeekCurrent),
            1 => target_strategy().prop_map(Op::SeekEnd),
            1 => target_strategy().prop_map(Op::SeekRelative),
            1 => Just(Op::Tell),
        ]
        .boxed()
    } else {
        prop_oneof![
            3 => prop_oneof![1u16..8, 1u16..300, Just(0u16), Just(1u16)].prop_map(|n| Op::Read { n }),
            3 => Just(Op::Fill),
            3 => any::<u8>().prop_map(|frac| Op::Consume { frac }),
        ]
        .boxed()
    }
}

pub fn reader_strategy() -> BoxedStrategy<ReaderSel> {
    proptest::sample::select(&[ReaderSel::ByteLE, ReaderSel::ByteBE, ReaderSel::Sample, ReaderSel::Channel][..]).boxed()
}

pub fn hist_strategy() -> BoxedStrategy<HistCase> {
    (
        file_strategy(),
        reader_strategy(),
        proptest::collection::vec(op_strategy(true), 1..40),
        prop_oneof![4 => Just(0u8), 1 => Just(1u8), 1 => Just(2u8)],
        prop_oneof![2 => Just(0u16), 1 => 1u16..400],
    )
        .prop_map(|(file, reader, ops, tail, prefix)| HistCase {
            file,
            reader,
            ops,
            segs: vec![],
            extra_polls: 0,
            iterate_tail: tail == 1,
            read_to_end_tail: tail == 2,
            prefix,
        })
        .boxed()
}

pub const RULE: &str = "model-based histories: a file (crate-encoded noise with seek table none / every frame / every n frames / every n \
seconds, or an independently generated stream with placeholders, first point not frame 0, variable blocking, unknown total) is opened \
with new_seekable by one of the four seekable front-ends and driven by 1-40 operations {read(n), fill_buf, consume(k<=avail), \
seek Start/Current/End or seek(sample), tell} with targets drawn from {0, frame boundaries +-1, mid-frame, end +-1, far beyond, anywhere}; \
after every operation the data returned must equal the decoded PCM at the model position, seeks within 0..=len must succeed and return \
the requested position, seeks outside must fail; after a failed seek the model position is unknown until the next successful absolute \
seek. Non-trivial = a successful seek issued with a partially consumed buffer, an End/Current-relative seek, a seek to a position that \
is not PCM-frame aligned, or a mid-frame target. Distinct = digest of the case.";

pub fn run(ctx: &Ctx) {
    ctx.set_rule(RULE);
    ctx.assume("a byte reader seek to exactly the stream length must succeed (standard stream semantics); beyond it must fail (the statement)");
    let n = match ctx.tier {
        Tier::Quick => 400_000,
        Tier::Thorough => 8_000_000,
    };
    ctx.regress(&SeekHistory);
    ctx.search(&SeekHistory, n, hist_strategy);
}

pub fn engines() -> Vec<Box<dyn crate::engine::DynEngine>> {
    vec![Box::new(SeekHistory)]
}
