//! C20 — cue sheet text import reproduces the layout the text describes.

use super::c01::strip_digits;
use crate::cuegen::{self, CueSpec, Model};
use crate::engine::{Ctx, Engine, Fail, Outcome, Tier};
use crate::util::guarded;
use flac_codec::metadata::Cuesheet;

pub struct Import;

pub fn compare(cs: &Cuesheet, m: &Model, out: &mut Outcome, what: &str, layout_only: bool) {
    let tracks: Vec<_> = cs.tracks().collect();
    if tracks.len() != m.tracks.len() + 1 {
        out.fail(format!("{what}:track-count"), format!("{} tracks (incl. lead-out), text has {}", tracks.len(), m.tracks.len()));
        return;
    }
    for (t, mt) in tracks.iter().zip(&m.tracks) {
        if t.number != Some(mt.number) {
            out.fail(format!("{what}:track-number"), format!("track {:?} vs {}", t.number, mt.number));
        }
        let got: Vec<(u8, u64)> = t.index_points.iter().map(|i| (i.number, t.offset + i.offset)).collect();
        if got.iter().map(|x| x.0).collect::<Vec<_>>() != mt.indices.iter().map(|x| x.0).collect::<Vec<_>>() {
            out.fail(format!("{what}:index-numbers"), format!("track {}: indices {:?} vs text {:?}", mt.number, got, mt.indices));
        } else if got != mt.indices {
            out.fail(format!("{what}:index-positions"), format!("track {}: positions {:?} vs text {:?}", mt.number, got, mt.indices));
        }
        if t.offset != mt.indices[0].1 {
            out.fail(format!("{what}:track-offset"), format!("track {} offset {} vs first index {}", mt.number, t.offset, mt.indices[0].1));
        }
        if !layout_only {
            if t.pre_emphasis != mt.pre_emphasis {
                out.fail(format!("{what}:pre-emphasis"), format!("track {}: {} vs text {}", mt.number, t.pre_emphasis, mt.pre_emphasis));
            }
            let isrc = t.isrc.as_ref();
            if isrc != mt.isrc.as_deref().unwrap_or("") {
                out.fail(format!("{what}:isrc"), format!("track {}: {:?} vs text {:?}", mt.number, isrc, mt.isrc));
            }
            if t.non_audio {
                out.fail(format!("{what}:non-audio"), format!("track {} marked non-audio", mt.number));
            }
        }
    }
    let lo = tracks.last().unwrap();
    if lo.number.is_some() || lo.offset != m.total_samples || !lo.index_points.is_empty() {
        out.fail(format!("{what}:lead-out"), format!("lead-out {:?}@{} vs stream length {}", lo.number, lo.offset, m.total_samples));
    }
    // ranges: index 01 of each track to index 01 of the next / the stream length
    let starts: Vec<u64> = m.tracks.iter().map(|t| t.indices.iter().find(|i| i.0 == 1).map(|i| i.1).unwrap_or(t.indices[0].1)).collect();
    let want: Vec<std::ops::Range<u64>> = starts.iter().enumerate().map(|(i, s)| *s..starts.get(i + 1).copied().unwrap_or(m.total_samples)).collect();
    let got: Vec<std::ops::Range<u64>> = cs.track_sample_ranges().collect();
    if got != want {
        out.fail(format!("{what}:track-ranges"), format!("{:?} vs {:?}", &got[..got.len().min(4)], &want[..want.len().min(4)]));
    }
    if !layout_only {
        let cat = cs.catalog_number().to_string();
        if cat != m.catalog.clone().unwrap_or_default() {
            out.fail(format!("{what}:catalog"), format!("{cat:?} vs text {:?}", m.catalog));
        }
        if !cs.is_cdda() {
            out.fail(format!("{what}:not-cdda"), "a stream of whole CD sectors must import as a CD-DA cue sheet");
        }
    }
}

impl Engine for Import {
    type Case = CueSpec;
    fn name(&self) -> &'static str {
        "cue-import"
    }
    fn check(&self, c: &CueSpec) -> Outcome {
        let mut out = Outcome::new();
        let m = c.model();
        let text = c.render();
        let n = m.tracks.len();
        out.label(match n {
            1 => "tracks:1",
            2..=9 => "tracks:2-9",
            10..=98 => "tracks:10-98",
            _ => "tracks:99",
        });
        if c.tracks.iter().any(|t| t.has_pregap) {
            out.label("pre-gap");
        }
        if m.tracks.iter().any(|t| t.indices.len() >= 3) {
            out.label("track-with>=3-indices");
        }
        if m.total_samples / 588 / 75 / 60 > 99 {
            out.label("minutes>99");
        }
        out.nontrivial = n >= 3 && c.tracks.iter().any(|t| t.has_pregap) && m.tracks.iter().any(|t| t.indices.len() >= 3);
        match guarded(|| Cuesheet::parse(m.total_samples, &text)) {
            Err(p) => out.fails.push(Fail::panic("parse-panic", &p)),
            Ok(Err(e)) => out.fail(format!("well-formed-text-rejected:{}", strip_digits(&e.to_string())), format!("{e}\n{}", text.chars().take(400).collect::<String>())),
            Ok(Ok(cs)) => {
                compare(&cs, &m, &mut out, "import", false);
                // export and import again: same track / index layout
                match guarded(|| {
                    let t2 = cs.display("audio.flac").to_string();
                    Cuesheet::parse(m.total_samples, &t2).map_err(|e| format!("{e}\n{}", t2.chars().take(300).collect::<String>()))
                }) {
                    Err(p) => out.fails.push(Fail::panic("display-reparse-panic", &p)),
                    Ok(Err(e)) => out.fail(format!("exported-text-rejected:{}", strip_digits(e.lines().next().unwrap_or(""))), e),
                    Ok(Ok(cs2)) => compare(&cs2, &m, &mut out, "reimport", true),
                }
            }
        }
        out
    }
    fn sample(&self, c: &CueSpec) -> serde_json::Value {
        serde_json::json!({"tracks": c.tracks.len(), "text_head": c.render().chars().take(300).collect::<String>()})
    }
}

pub const RULE: &str = "cue texts from a grammar generator: 1-99 tracks, optional INDEX 00 (always followed by INDEX 01), up to 99 further \
consecutive indices, strictly increasing MM:SS:FF with minutes far above 99, optional 13-digit CATALOG (quoted or not), ISRC (with or \
without dashes, quoted or not), FLAGS PRE / a single other flag / none, REM/TITLE/PERFORMER/FILE noise lines, arbitrary leading and \
trailing blanks and tabs, LF or CRLF; stream length = 588 x k beyond the last index. Oracle = the abstract layout the generator rendered: \
track numbers, index numbers, absolute positions ((MM*60+SS)*75+FF)*588, pre-emphasis, ISRC, catalog, lead-out = stream length, track \
ranges index 01 -> next index 01; and display() -> parse() gives the same track/index layout. Non-trivial = >= 3 tracks with a pre-gap \
and a track with >= 3 indices. Distinct = digest of the case.";

pub fn run(ctx: &Ctx) {
    ctx.set_rule(RULE);
    ctx.assume("separator runs of more than one blank and multi-flag FLAGS lines are outside the generated domain");
    let n = match ctx.tier {
        Tier::Quick => 60_000,
        Tier::Thorough => 2_500_000,
    };
    ctx.regress(&Import);
    ctx.search(&Import, n, || cuegen::spec_strategy(99, 99));
}

pub fn engines() -> Vec<Box<dyn crate::engine::DynEngine>> {
    vec![Box::new(Import)]
}
