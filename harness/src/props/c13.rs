//! C13 — success is only reported when the output really reached the underlying stream.

use super::c01::strip_digits;
use super::c10::{BaseSpec, Edit, build_base};
use crate::codec::{self, Front, NoDrop, ReaderKind};
use crate::engine::{Ctx, Engine, Fail, Outcome, Tier};
use crate::iow::{FaultKind, FaultyWriter, RecWriter, SegReader, SharedFaulty};
use crate::metagen::{self, VSpec};
use crate::opts::{EncOpts, Seek};
use crate::pcm::{ChanRecipe, Kind, Pcm, Recipe};
use crate::util::guarded;
use flac_codec::decode::verify_reader;
use flac_codec::encode::{FlacStreamWriter, Options, SeekTableInterval, generate_seektable};
use flac_codec::metadata::{Application, Block, BlockList, VorbisComment, update_file, write_blocks};
use proptest::prelude::*;
use serde::{Deserialize, Serialize};

#[derive(Serialize, Deserialize, Clone, Debug, Hash, PartialEq, Eq)]
pub enum Scenario {
    Encode {
        front: Front,
        seek: Seek,
        declare: bool,
        channels: u8,
        bps: u8,
        frames: u32,
        bs: u16,
        padding: Option<u32>,
        /// junk bytes before the stream; the writer is positioned behind them
        #[serde(default)]
        prefix: u16,
        /// hand the whole input to the writer in one call instead of 37-unit pieces
        #[serde(default)]
        one_call: bool,
    },
    StreamWrite { nframes: u8 },
    WriteBlocks { spec: VSpec },
    /// update_file with faults in the original (write/seek/flush, and reads when `read_faults`)
    Update { base: BaseSpec, edit: Edit, read_faults: bool },
    /// update_file forced to rebuild, faults in the rebuilt writer
    UpdateRebuilt { base: BaseSpec, edit: Edit },
}

#[derive(Serialize, Deserialize, Clone, Debug, Hash, PartialEq, Eq)]
pub struct FaultCase {
    pub scenario: Scenario,
    /// None = the fault-free counting run
    pub fail_at: Option<u32>,
    pub kind: FaultKind,
    /// every write accepts at most this many bytes
    pub short: Option<u8>,
}

fn test_pcm(channels: u8, bps: u8, frames: u32) -> Pcm {
    Recipe {
        bps,
        rate: 44100,
        frames,
        seed: 11,
        chans: (0..channels).map(|i| ChanRecipe { kind: if i == 0 { Kind::Noise { amp: bps - 2 } } else { Kind::Sines { n: 2, amp: bps - 2, noise: 1 } }, wasted: 0, relation: 0 }).collect(),
        seg: 0, ms_mix: 0,
    }
    .expand()
}

fn apply(e: &Edit, bl: &mut BlockList) -> Result<(), flac_codec::Error> {
    match e {
        Edit::SetTitle { len } => {
            let v: String = std::iter::repeat_n('y', *len as usize).collect();
            bl.update::<VorbisComment>(|vc| vc.set("TITLE", v));
        }
        Edit::AppResize { d, .. } => {
            bl.insert(Application { id: 0x746573, data: vec![1; (*d).unsigned_abs() as usize] });
        }
        Edit::RemoveComment => bl.remove::<VorbisComment>(),
        Edit::RemovePadding => bl.remove::<flac_codec::metadata::Padding>(),
        _ => {}
    }
    Ok(())
}

pub struct RunResult {
    /// Ok(description) / Err(text)
    pub result: Result<String, String>,
    /// bytes held by the (primary) underlying writer afterwards
    pub bytes: Vec<u8>,
    pub ops: u64,
    pub failed: u64,
    pub failed_op: Option<&'static str>,
}

/// Runs the scenario with the given fault; panics propagate to the caller's `guarded`.
pub fn run_scenario(c: &FaultCase) -> RunResult {
    let mk = |init: RecWriter| SharedFaulty::new(FaultyWriter::new(init, c.fail_at.map(|n| n as u64), c.kind, c.short.map(|k| k as usize)));
    match &c.scenario {
        Scenario::Encode { front, seek, declare, channels, bps, frames, bs, padding, prefix, one_call } => {
            let pcm = test_pcm(*channels, *bps, *frames);
            let mut o = EncOpts::small(*bs);
            o.seek = seek.clone();
            o.declare_total = *declare;
            o.padding = *padding;
            o.max_lpc = Some(4);
            let junk: Vec<u8> = (0..*prefix).map(|i| (i as u8).wrapping_mul(29) ^ 0x3C).collect();
            let w = mk(RecWriter::with_prefix(&junk));
            let total = if *declare { Some(codec::declared_total(&pcm, *front)) } else { None };
            let chunks: &[usize] = if *one_call { &[] } else { &[37] };
            let r = codec::encode_into(w.clone(), &pcm, &o, *front, chunks, total, &[]);
            RunResult {
                result: r.map(|()| "encoded".to_string()).map_err(|e| format!("{}: {}", e.stage(), e.text())),
                bytes: w.data(),
                ops: w.count(),
                failed: w.failed(),
                failed_op: w.last_failed_op(),
            }
        }
        Scenario::StreamWrite { nframes } => {
            let w = mk(RecWriter::new());
            let mut res = Ok("written".to_string());
            {
                let mut sw = FlacStreamWriter::new(w.clone(), Options::default());
                for i in 0..*nframes {
                    let pcm = test_pcm(1 + i % 2, 16, 40 + i as u32);
                    if let Err(e) = sw.write(44100, pcm.channels, 16, &pcm.interleaved()) {
                        res = Err(e.to_string());
                        break;
                    }
                }
            }
            RunResult { result: res, bytes: w.data(), ops: w.count(), failed: w.failed(), failed_op: w.last_failed_op() }
        }
        Scenario::WriteBlocks { spec } => {
            let mut blocks: Vec<Block> = vec![];
            if let Some(si) = spec.si.build() {
                blocks.push(si.into());
            }
            for v in &spec.blocks {
                if let Ok(b) = metagen::build_block(v) {
                    blocks.push(b);
                }
            }
            let w = mk(RecWriter::new());
            let r = write_blocks(w.clone(), blocks.iter());
            RunResult {
                result: r.map(|()| "written".to_string()).map_err(|e| e.to_string()),
                bytes: w.data(),
                ops: w.count(),
                failed: w.failed(),
                failed_op: w.last_failed_op(),
            }
        }
        Scenario::Update { base, edit, read_faults } => {
            let file = build_base(base);
            let mut init = RecWriter::new();
            init.data = file;
            init.pos = 0;
            let w = mk(init);
            w.0.borrow_mut().count_reads = *read_faults;
            let mut rebuilt: Vec<u8> = vec![];
            let r = update_file(w.clone(), || Ok(&mut rebuilt), |bl| apply(edit, bl));
            let mut bytes = w.data();
            let res = match r {
                Ok(false) => Ok("in-place".to_string()),
                Ok(true) => {
                    // the result lives in the rebuilt file
                    bytes = rebuilt.clone();
                    Ok("rebuilt".to_string())
                }
                Err(e) => Err(e.to_string()),
            };
            RunResult { result: res, bytes, ops: w.count(), failed: w.failed(), failed_op: w.last_failed_op() }
        }
        Scenario::UpdateRebuilt { base, edit } => {
            let file = build_base(base);
            let w = mk(RecWriter::new());
            let w2 = w.clone();
            let r = update_file(std::io::Cursor::new(file), move || Ok(w2), |bl| apply(edit, bl));
            let res = match r {
                Ok(false) => Ok("in-place".to_string()),
                Ok(true) => Ok("rebuilt".to_string()),
                Err(e) => Err(e.to_string()),
            };
            RunResult { result: res, bytes: w.data(), ops: w.count(), failed: w.failed(), failed_op: w.last_failed_op() }
        }
    }
}

pub struct WriteFaults {
    pub name: &'static str,
}

impl Engine for WriteFaults {
    type Case = FaultCase;
    fn name(&self) -> &'static str {
        self.name
    }
    fn check(&self, c: &FaultCase) -> Outcome {
        let mut out = Outcome::new();
        out.label(match &c.scenario {
            Scenario::Encode { .. } => "scenario:encode+finalize",
            Scenario::StreamWrite { .. } => "scenario:stream-writer",
            Scenario::WriteBlocks { .. } => "scenario:write_blocks",
            Scenario::Update { read_faults: false, .. } => "scenario:update_file",
            Scenario::Update { read_faults: true, .. } => "scenario:update_file+read-faults",
            Scenario::UpdateRebuilt { .. } => "scenario:update_file-rebuild-target",
        });
        // fault-free reference
        let clean = FaultCase { fail_at: None, short: None, ..c.clone() };
        let reference = match guarded(|| run_scenario(&clean)) {
            Ok(r) => r,
            Err(p) => {
                out.fails.push(Fail::panic("fault-free-run-panic", &p));
                return out;
            }
        };
        if reference.result.is_err() {
            out.label("fault-free-run-fails");
            return out;
        }
        if c.fail_at.is_none() && c.short.is_none() {
            return out;
        }
        let r = match guarded(|| run_scenario(c)) {
            Ok(r) => r,
            Err(p) => {
                out.fails.push(Fail::panic("panic-under-fault", &p));
                return out;
            }
        };
        if r.failed == 0 && c.short.is_none() {
            out.label("fault-index-not-reached");
            return out;
        }
        out.nontrivial = true;
        if let Some(op) = r.failed_op {
            out.label(match op {
                "write" => "fault:write",
                "flush" => "fault:flush",
                "seek" => "fault:seek",
                _ => "fault:read",
            });
        }
        out.label(match c.kind {
            FaultKind::Once => "kind:transient",
            FaultKind::Forever => "kind:permanent",
            FaultKind::Interrupted => "kind:interrupted",
        });
        if c.short.is_some() {
            out.label("short-writes");
        }
        match &r.result {
            Err(_) => {
                out.label("error-reported");
                // Interrupted must be retried, short writes must be completed
                if c.fail_at.is_none() && c.short.is_some() {
                    out.fail("short-writes-cause-error", format!("writes accepting at most {:?} bytes made the operation fail: {:?}", c.short, r.result));
                }
            }
            Ok(what) => {
                out.label("success-reported");
                if r.bytes != reference.bytes {
                    let at = r.bytes.iter().zip(&reference.bytes).position(|(a, b)| a != b);
                    out.fail(
                        format!(
                            "success-with-lost-output:{}",
                            match &c.scenario {
                                Scenario::Encode { .. } => "encode",
                                Scenario::StreamWrite { .. } => "stream-writer",
                                Scenario::WriteBlocks { .. } => "write_blocks",
                                Scenario::Update { .. } => "update_file",
                                Scenario::UpdateRebuilt { .. } => "update_file-rebuild",
                            }
                        ),
                        format!(
                            "{what}: reported success although {} op #{:?} failed ({:?}); output has {} bytes, fault-free run {} bytes, first difference at {:?}",
                            r.failed_op.unwrap_or("?"),
                            c.fail_at,
                            c.kind,
                            r.bytes.len(),
                            reference.bytes.len(),
                            at
                        ),
                    );
                }
            }
        }
        out
    }
}

// ---------------------------------------------------------------------------------------------
// failing reads

#[derive(Serialize, Deserialize, Clone, Debug, Hash, PartialEq, Eq)]
pub enum ReadTarget {
    Reader(ReaderKind),
    Verify,
    SeekTable,
    BlockList,
}

#[derive(Serialize, Deserialize, Clone, Debug, Hash, PartialEq, Eq)]
pub struct ReadFaultCase {
    pub channels: u8,
    pub bps: u8,
    pub frames: u32,
    pub declare: bool,
    pub target: ReadTarget,
    pub fail_at: u32,
    pub kind: FaultKind,
    pub seg: u16,
}

pub fn read_fault_file(c: &ReadFaultCase) -> (Vec<u8>, Pcm) {
    let pcm = test_pcm(c.channels, c.bps, c.frames);
    let mut o = EncOpts::small(32);
    o.seek = Seek::Frames(2);
    o.declare_total = true;
    let mut bytes = codec::encode_vec(&pcm, &o, Front::Samples, &[]).expect("encode");
    if !c.declare {
        // blank the total: the decoder then relies on a clean end of data
        bytes[21] &= 0xF0;
        for b in &mut bytes[22..26] {
            *b = 0;
        }
    }
    (bytes, pcm)
}

pub struct ReadFaults;

/// Ok(Some(samples)) = complete success with these samples, Ok(None) = success without samples, Err = error reported
fn run_read(target: &ReadTarget, src: SegReader) -> (Result<Option<Vec<i32>>, String>, u64) {
    // the reader is moved into the crate; count reads through a shared cell
    struct Counting(SegReader, std::rc::Rc<std::cell::Cell<u64>>);
    impl std::io::Read for Counting {
        fn read(&mut self, b: &mut [u8]) -> std::io::Result<usize> {
            self.1.set(self.1.get() + 1);
            self.0.read(b)
        }
    }
    let n = std::rc::Rc::new(std::cell::Cell::new(0u64));
    let rd = Counting(src, n.clone());
    let r = match target {
        ReadTarget::Reader(kind) => match codec::decode_with(rd, *kind, 50) {
            Err(e) => Err(e),
            Ok(d) => match d.err {
                Some(e) => Err(e),
                None => Ok(Some(d.samples)),
            },
        },
        ReadTarget::Verify => verify_reader(rd).map(|v| Some(vec![v as i32])).map_err(|e| e.to_string()),
        ReadTarget::SeekTable => generate_seektable(rd, SeekTableInterval::Frames(1.try_into().unwrap())).map(|t| Some(vec![t.points.len() as i32])).map_err(|e| e.to_string()),
        ReadTarget::BlockList => BlockList::read(rd).map(|b| Some(vec![b.blocks().count() as i32])).map_err(|e| e.to_string()),
    };
    (r, n.get())
}

impl Engine for ReadFaults {
    type Case = ReadFaultCase;
    fn name(&self) -> &'static str {
        "read-faults"
    }
    fn check(&self, c: &ReadFaultCase) -> Outcome {
        let mut out = Outcome::new();
        let (bytes, _pcm) = read_fault_file(c);
        let segs = if c.seg == 0 { vec![] } else { vec![c.seg as usize] };
        let clean = guarded(|| run_read(&c.target, SegReader::new(bytes.clone()).with_segs(segs.clone())));
        let (clean, nreads) = match clean {
            Ok((Ok(v), n)) => (v, n),
            Ok((Err(e), _)) => {
                out.fail(format!("fault-free-read-fails:{}", strip_digits(&e)), e);
                return out;
            }
            Err(p) => {
                out.fails.push(Fail::panic("fault-free-read-panic", &p));
                return out;
            }
        };
        if c.fail_at as u64 >= nreads {
            out.label("fault-index-not-reached");
            return out;
        }
        out.nontrivial = true;
        out.label(match c.kind {
            FaultKind::Once => "kind:transient",
            FaultKind::Forever => "kind:permanent",
            FaultKind::Interrupted => "kind:interrupted",
        });
        let src = SegReader::new(bytes).with_segs(segs).failing(c.fail_at as u64, c.kind);
        match guarded(|| run_read(&c.target, src)) {
            Err(p) => out.fails.push(Fail::panic("panic-under-read-fault", &p)),
            Ok((Err(_), _)) => out.label("error-reported"),
            Ok((Ok(v), _)) => {
                out.label("success-reported");
                if v != clean {
                    out.fail(
                        format!("read-error-swallowed:{:?}", c.target).replace(['(', ')'], "-"),
                        format!("read call #{} failed ({:?}) but {:?} reported success with different/truncated output", c.fail_at, c.kind, c.target),
                    );
                }
            }
        }
        out
    }
}

pub fn scenarios(tier: Tier, seed: u64) -> Vec<Scenario> {
    let mut v = vec![];
    let fronts = [Front::Samples, Front::BytesLE, Front::Channels, Front::BytesBE];
    let mut k = 0u64;
    for (fi, front) in fronts.iter().enumerate() {
        for (seek, declare, padding) in [
            (Seek::None, true, None),
            (Seek::Frames(1), true, Some(40)),
            (Seek::Frames(2), false, Some(200)),
            (Seek::Frames(1), false, None),
            (Seek::Seconds(1), false, Some(64)),
        ] {
            k += 1;
            let _ = fi;
            v.push(Scenario::Encode {
                front: *front,
                seek,
                declare,
                channels: 1 + (k % 2) as u8,
                bps: if k % 3 == 0 { 24 } else { 16 },
                frames: 70 + (seed % 7) as u32 + k as u32,
                bs: 32,
                padding,
                prefix: if k % 4 == 1 { 173 } else { 0 },
                one_call: k % 3 == 2,
            });
        }
    }
    // the encoder has separate code paths for 1, 2 and 3-8 channels
    for (i, (front, channels)) in fronts.iter().zip([3u8, 8, 5, 4]).enumerate() {
        v.push(Scenario::Encode {
            front: *front,
            seek: if i % 2 == 0 { Seek::Frames(1) } else { Seek::None },
            declare: i % 2 == 1,
            channels,
            bps: if i == 1 { 24 } else { 16 },
            frames: 66 + (seed % 5) as u32 + i as u32,
            bs: 32,
            padding: if i % 2 == 0 { Some(40) } else { None },
            prefix: if i == 3 { 57 } else { 0 },
            one_call: i % 2 == 1,
        });
    }
    v.push(Scenario::StreamWrite { nframes: 3 });
    let spec = |n: u64| -> VSpec {
        crate::engine::sample_strategy(&metagen::vspec_strategy(), seed.wrapping_add(n), 1).pop().unwrap_or(VSpec {
            si: crate::engine::sample_strategy(&metagen::si_strategy(false), 1, 1).pop().unwrap(),
            blocks: vec![],
        })
    };
    for n in 0..(if tier == Tier::Quick { 8 } else { 60 }) {
        let mut s = spec(n);
        // keep block lists small so that the enumeration stays cheap
        s.blocks.retain(|b| !matches!(b, metagen::VBlock::Padding(p) if *p > 100_000));
        s.blocks.truncate(3);
        v.push(Scenario::WriteBlocks { spec: s });
    }
    let bases = [
        BaseSpec { pads: vec![100], apps: vec![10], comment: true, picture: false, rotate: 0 },
        BaseSpec { pads: vec![], apps: vec![], comment: true, picture: false, rotate: 0 },
        BaseSpec { pads: vec![30, 500], apps: vec![5, 5], comment: false, picture: true, rotate: 1 },
    ];
    let edits = [Edit::SetTitle { len: 20 }, Edit::SetTitle { len: 1 }, Edit::AppResize { idx: 0, base: 0, d: 5 }, Edit::RemoveComment, Edit::SetTitle { len: 3000 }, Edit::Noop];
    for (bi, b) in bases.iter().enumerate() {
        for (ei, e) in edits.iter().enumerate() {
            let _ = (bi, ei);
            v.push(Scenario::Update { base: b.clone(), edit: e.clone(), read_faults: false });
            if ei % 3 == 0 {
                v.push(Scenario::Update { base: b.clone(), edit: e.clone(), read_faults: true });
            }
            if matches!(e, Edit::SetTitle { len: 3000 }) || b.pads.is_empty() {
                v.push(Scenario::UpdateRebuilt { base: b.clone(), edit: e.clone() });
            }
        }
    }
    v
}

pub const RULE: &str = "fault enumeration: for each scenario (encode + finalize through each writer front-end with/without seek table and \
declared/undeclared total; FlacStreamWriter; write_blocks of generated block lists; update_file in place for growing / equal / \
shrinking edits, with faults on the original's writes, seeks, flushes and optionally reads; update_file forced to rebuild with faults \
in the new file) one fault-free run counts the underlying operations N, then EVERY index n < N fails once (ErrorKind::Other), once \
with Interrupted, or permanently; plus runs where every write accepts at most 1, 2 or 7 bytes. Oracle: no unwind; the call reports an \
error OR the bytes held by the underlying writer equal the fault-free result exactly; short writes alone must not cause failure. \
Failing reads: every read index of every reader front-end, verify_reader, generate_seektable and BlockList::read fails the same three \
ways: the error is reported or the output is complete. Non-trivial = a run in which the injected fault was actually reached.";

pub fn run(ctx: &Ctx) {
    ctx.set_rule(RULE);
    ctx.assume("injected errors use ErrorKind::Other / Interrupted, never UnexpectedEof (which the decoder legitimately reads as end of data)");
    let t = ctx.tier;
    let eng = WriteFaults { name: "write-faults" };
    ctx.regress(&eng);
    ctx.regress(&ReadFaults);
    let mut scs = scenarios(t, ctx.seed);
    if t == Tier::Thorough {
        for extra in 1..12u64 {
            scs.extend(scenarios(t, ctx.seed.wrapping_add(extra * 1013)).into_iter().filter(|s| matches!(s, Scenario::Encode { .. } | Scenario::WriteBlocks { .. })));
        }
    }
    // counting runs
    let mut plan: Vec<(usize, u64)> = vec![];
    for (i, s) in scs.iter().enumerate() {
        let c = FaultCase { scenario: s.clone(), fail_at: None, kind: FaultKind::Once, short: None };
        match guarded(|| run_scenario(&c)) {
            Ok(r) if r.result.is_ok() => plan.push((i, r.ops)),
            Ok(r) => ctx.infra(format!("scenario {i} fails without any fault: {:?}", r.result)),
            Err(p) => ctx.infra(format!("scenario {i} panics without any fault: {:?}", p)),
        }
    }
    let mut index = vec![];
    let mut total = 0u64;
    for (i, n) in &plan {
        index.push((total, *i, *n));
        total += n * 3 + 3;
    }
    ctx.extra("scenarios", serde_json::json!(plan.len()));
    ctx.extra("operations_per_scenario", serde_json::json!(plan.iter().map(|p| p.1).collect::<Vec<_>>()));
    ctx.enumerate(&eng, total, |k| {
        let j = index.partition_point(|(o, _, _)| *o <= k) - 1;
        let (o, i, n) = index[j];
        let r = k - o;
        let s = scs[i].clone();
        Some(if r < n * 3 {
            FaultCase { scenario: s, fail_at: Some((r / 3) as u32), kind: [FaultKind::Once, FaultKind::Forever, FaultKind::Interrupted][(r % 3) as usize], short: None }
        } else {
            FaultCase { scenario: s, fail_at: None, kind: FaultKind::Once, short: Some([1u8, 2, 7][(r - n * 3) as usize]) }
        })
    });
    ctx.set_exhaustive("write-faults", true, &format!("{} scenarios, every operation index x {{once, forever, interrupted}} + short-write runs", plan.len()));

    // failing reads: every read index
    let targets = [
        ReadTarget::Reader(ReaderKind::ByteLE),
        ReadTarget::Reader(ReaderKind::Sample),
        ReadTarget::Reader(ReaderKind::SampleIter),
        ReadTarget::Reader(ReaderKind::Channel),
        ReadTarget::Reader(ReaderKind::SampleToEnd),
        ReadTarget::Reader(ReaderKind::ByteBE),
        ReadTarget::Verify,
        ReadTarget::SeekTable,
        ReadTarget::BlockList,
    ];
    let mut rplan = vec![];
    for (ti, target) in targets.iter().enumerate() {
        for declare in [true, false] {
            for seg in [0u16, 5] {
                let c = ReadFaultCase { channels: 1 + (ti % 2) as u8, bps: 16, frames: 80, declare, target: target.clone(), fail_at: 0, kind: FaultKind::Once, seg };
                let (bytes, _) = read_fault_file(&c);
                let segs = if seg == 0 { vec![] } else { vec![seg as usize] };
                if let Ok((Ok(_), n)) = guarded(|| run_read(target, SegReader::new(bytes).with_segs(segs))) {
                    rplan.push((c, n));
                }
            }
        }
    }
    let mut rindex = vec![];
    let mut rtotal = 0u64;
    for (i, (_, n)) in rplan.iter().enumerate() {
        rindex.push((rtotal, i));
        rtotal += n * 3;
    }
    ctx.enumerate(&ReadFaults, rtotal, |k| {
        let j = rindex.partition_point(|(o, _)| *o <= k) - 1;
        let (o, i) = rindex[j];
        let r = k - o;
        let mut c = rplan[i].0.clone();
        c.fail_at = (r / 3) as u32;
        c.kind = [FaultKind::Once, FaultKind::Forever, FaultKind::Interrupted][(r % 3) as usize];
        Some(c)
    });
    ctx.set_exhaustive("read-faults", true, &format!("{} (target, file, segmentation) combinations, every read-call index x {{once, forever, interrupted}}", rplan.len()));
    let _ = proptest::strategy::Just(0u8).boxed();
}

pub fn engines() -> Vec<Box<dyn crate::engine::DynEngine>> {
    vec![Box::new(WriteFaults { name: "write-faults" }), Box::new(ReadFaults)]
}
