//! C17 — parsed frame structures re-serialise identically and agree with the decoder.

use super::c01::{EncCase, enc_case_strategy, strip_digits, tonal_case_strategy};
use super::c03::{GenCase, frame_to_pcm, gen_case_strategy, interleave};
use super::c04::{MutCase, build_mutant, mut_case_strategy};
use crate::codec;
use crate::engine::{Ctx, Engine, Fail, Outcome, Tier};
use crate::framegen::{self, block_header};
use crate::pcm::Rng;
use crate::refdec::{self, Cfg};
use crate::util::guarded;
use flac_codec::metadata::read_info;
use flac_codec::stream::Frame;
use proptest::prelude::*;
use serde::{Deserialize, Serialize};
use std::io::Cursor;

#[derive(Serialize, Deserialize, Clone, Debug, Hash, PartialEq, Eq)]
pub enum StructCase {
    Enc(EncCase),
    Gen(GenCase),
    Mut(MutCase),
    /// one independently generated frame whose coded frame / sample number sits at or next to a
    /// boundary between two coded lengths
    Bare(super::c03::BareCase),
}

/// (stream bytes, frame spans) for the case
fn frames_of(c: &StructCase, out: &mut Outcome) -> Option<(Vec<u8>, Vec<(usize, usize)>)> {
    match c {
        StructCase::Enc(e) => {
            out.label("source:crate-encoder");
            let pcm = e.recipe.expand();
            let bytes = guarded(|| codec::encode_vec(&pcm, &e.opts, e.front, &e.chunks)).ok()?.ok()?;
            let d = refdec::decode_file(&bytes, &Cfg::LENIENT).ok()?;
            let spans = d.frames.iter().map(|f| (f.offset, f.len)).collect();
            Some((bytes, spans))
        }
        StructCase::Gen(g) => {
            out.label("source:generator-valid");
            let mut rng = Rng(g.seed);
            let gs = framegen::gen_stream(&mut rng, g.low_depth, g.max_frames.max(1) as usize, g.max_bs.max(16));
            let spans = gs.frames.iter().map(|f| (f.0, f.1)).collect();
            Some((gs.bytes, spans))
        }
        StructCase::Bare(b) => {
            use crate::framegen::{Chooser, HeaderChoice};
            out.label("source:generator-boundary-number");
            let mut rng = Rng(b.seed);
            let p = super::c03::bare_params(&mut rng);
            let bs = b.bs.clamp(1, 4096) as usize;
            let pcm = framegen::gen_pcm(&mut rng, p.channels, p.bps, bs);
            let variable = rng.chance(1, 2);
            // boundaries between the 1..7-byte forms, and their neighbours
            const EDGES: [u64; 7] = [0x7F, 0x7FF, 0xFFFF, 0x1F_FFFF, 0x3FF_FFFF, 0x7FFF_FFFF, 0xF_FFFF_FFFF];
            let e = EDGES[(b.number_class % 7) as usize];
            let number = match rng.below(3) {
                0 => e,
                1 => e + 1,
                _ => e - 1,
            };
            let number = if !variable { number.min(0x7FFF_FFFF) } else { number.min(0xF_FFFF_FFFF) };
            let hc = HeaderChoice { variable, number, number_len: 0, allow_streaminfo_codes: false };
            let ir = framegen::gen_frame(&mut rng, &p, &pcm, &hc);
            let fb = framegen::serialize_frame(&ir);
            let si = crate::refmeta::RBlock::Streaminfo {
                min_bs: bs.max(16) as u16,
                max_bs: bs.max(16) as u16,
                min_fs: 0,
                max_fs: 0,
                rate: p.rate,
                channels: p.channels,
                bps: p.bps,
                total: 0,
                md5: [0; 16],
            };
            let mut bytes = b"fLaC".to_vec();
            bytes.extend_from_slice(&block_header(true, 0, 34));
            bytes.extend_from_slice(&si.payload());
            let off = bytes.len();
            bytes.extend_from_slice(&fb);
            Some((bytes, vec![(off, fb.len())]))
        }
        StructCase::Mut(m) => {
            out.label("source:generator-mutant");
            let (gs, applied) = build_mutant(m);
            for a in &applied {
                out.label(a.class);
            }
            let spans = gs.frames.iter().map(|f| (f.0, f.1)).collect();
            Some((gs.bytes, spans))
        }
    }
}

pub struct Structural;

impl Engine for Structural {
    type Case = StructCase;
    fn name(&self) -> &'static str {
        "structural"
    }
    fn check(&self, c: &StructCase) -> Outcome {
        let mut out = Outcome::new();
        out.evals = 0;
        let Some((bytes, spans)) = frames_of(c, &mut out) else {
            out.label("no-frames");
            return out;
        };
        if bytes.len() < 42 {
            return out;
        }
        // the STREAMINFO both sides get: the stream's own, but with an unknown total and no MD5,
        // so that stream-level rules (remaining samples, short final block) cannot interfere
        let mut si_bytes = bytes[8..42].to_vec();
        si_bytes[13] &= 0xF0;
        for b in &mut si_bytes[14..34] {
            *b = 0;
        }
        let mut head = b"fLaC".to_vec();
        head.extend_from_slice(&block_header(true, 0, 34));
        head.extend_from_slice(&si_bytes);
        let Ok(si) = read_info(Cursor::new(&head)) else {
            out.label("streaminfo-unreadable");
            return out;
        };
        let channels = si.channels.get() as usize;
        for (fi, (off, len)) in spans.iter().enumerate().take(4) {
            let fb = &bytes[*off..off + len];
            out.evals += 1;
            // independent reading of this frame
            let rinfo = refdec::StreamInfo {
                min_bs: u16::from_be_bytes([si_bytes[0], si_bytes[1]]),
                max_bs: u16::from_be_bytes([si_bytes[2], si_bytes[3]]),
                min_fs: 0,
                max_fs: 0,
                rate: si.sample_rate,
                channels: si.channels.get(),
                bps: u32::from(si.bits_per_sample) as u8,
                total: 0,
                md5: [0; 16],
            };
            let ind = refdec::decode_frame(fb, 0, Some(&rinfo), &Cfg::LENIENT);
            // structural parser
            let parsed = match guarded(|| Frame::read(&mut Cursor::new(fb), &si).map_err(|e| e.to_string())) {
                Err(p) => {
                    out.fails.push(Fail::panic("parser-panic", &p));
                    continue;
                }
                Ok(r) => r,
            };
            // streaming decoder on a one-frame stream
            let mut one = head.clone();
            one.extend_from_slice(fb);
            // only the first frame is read, so bytes after a frame that parses shorter than the
            // slice do not matter on either side
            let dec_first: Result<Vec<i32>, String> = match guarded(|| {
                let mut rd = flac_codec::decode::FlacSampleReader::new(Cursor::new(&one)).map_err(|e| e.to_string())?;
                rd.fill_buf().map(|s| s.to_vec()).map_err(|e| e.to_string())
            }) {
                Err(p) => {
                    out.fails.push(Fail::panic("decoder-panic", &p));
                    continue;
                }
                Ok(r) => r,
            };
            match (&parsed, &dec_first) {
                (Ok(_), Ok(_)) => out.label("both-accept"),
                (Err(_), Err(_)) => out.label("both-reject"),
                (Ok(_), Err(e)) => out.fail(format!("parser-accepts-decoder-rejects:{}", strip_digits(e)), format!("frame {fi}: Frame::read Ok, decoder: {e}")),
                (Err(e), Ok(_)) => out.fail(format!("decoder-accepts-parser-rejects:{}", strip_digits(e)), format!("frame {fi}: decoder Ok, Frame::read: {e}")),
            }
            let Ok(f) = parsed else { continue };
            if matches!(c, StructCase::Mut(_)) {
                out.nontrivial = true;
            }
            // each subframe expands to block-size samples, and to the decoder's samples
            match guarded(|| frame_to_pcm(&f)) {
                Err(p) => out.fails.push(Fail::panic("subframe-decode-panic", &p)),
                Ok(Err(e)) => out.fail(format!("subframe-expansion:{}", strip_digits(&e)), format!("frame {fi}: {e}")),
                Ok(Ok(chs)) => {
                    let range_ok = matches!(&ind, Ok((i, _)) if i.range_ok && i.len == fb.len());
                    if chs.len() != channels {
                        out.fail("subframe-count", format!("frame {fi}: {} channels expanded, stream has {channels}", chs.len()));
                    } else if range_ok {
                        let got: Vec<Vec<i32>> = chs.iter().map(|c| c.iter().map(|v| *v as i32).collect()).collect();
                        if let Ok((_, want)) = &ind {
                            if got != *want {
                                out.fail("structural-samples-differ-from-format", format!("frame {fi}: Subframe::decode + decorrelation differs from the independent decoder"));
                            }
                        }
                        if let Ok(ds) = &dec_first {
                            let n = got[0].len() * channels;
                            if ds.len() < n || interleave(&got) != ds[..n] {
                                out.fail("structural-samples-differ-from-decoder", format!("frame {fi}: Subframe::decode + decorrelation differs from the streaming decoder"));
                            }
                        }
                    } else {
                        out.label("frame-with-out-of-range-values");
                    }
                }
            }
            // re-serialisation, when the premise (minimal number, zero padding) is independently established
            if let Ok((i, _)) = &ind {
                if i.len == fb.len() && i.pad_zero && i.number_minimal {
                    let mut w = vec![];
                    match guarded(|| f.write(&si, &mut w).map_err(|e| e.to_string())) {
                        Err(p) => out.fails.push(Fail::panic("frame-write-panic", &p)),
                        Ok(Err(e)) => out.fail(format!("parsed-frame-cannot-be-written:{}", strip_digits(&e)), format!("frame {fi}: {e}")),
                        Ok(Ok(())) => {
                            if w != fb {
                                let at = w.iter().zip(fb).position(|(a, b)| a != b);
                                out.fail("reserialised-bytes-differ", format!("frame {fi}: {} bytes written for {} parsed, first difference at {:?}", w.len(), fb.len(), at));
                            }
                        }
                    }
                    if i.subframes.iter().any(|s| s.part_order > 0) {
                        out.label("frame-with>=2-partitions");
                        out.nontrivial = true;
                    }
                } else {
                    out.label("roundtrip-premise-not-met");
                }
            }
        }
        out
    }
    fn sample(&self, c: &StructCase) -> serde_json::Value {
        match c {
            StructCase::Enc(e) => serde_json::json!({"source": "crate-encoder", "bps": e.recipe.bps, "frames": e.recipe.frames, "block_size": e.opts.block_size}),
            StructCase::Gen(g) => serde_json::json!({"source": "generator", "case": g}),
            StructCase::Bare(b) => serde_json::json!({"source": "boundary-number", "case": b}),
            StructCase::Mut(m) => serde_json::json!({"source": "mutant", "case": m, "classes": build_mutant(m).1.iter().map(|x| x.class).collect::<Vec<_>>()}),
        }
    }
}

pub const RULE: &str = "frames come from (a) the crate's encoder over the C01 space, (b) the independent generator (valid, every syntactic \
alternative), (c) generator mutants with 1-3 illegal/extreme fields and recomputed checksums, (d) single generated frames whose coded number is at or next to a boundary between two coded lengths. Each frame is given to Frame::read with a \
STREAMINFO carrying the stream's parameters but an unknown total (so stream-level rules cannot interfere) and, wrapped as a one-frame \
stream with that same STREAMINFO, to the streaming decoder. Oracle: parser accepts <=> decoder accepts; every subframe's decode() \
yields block-size samples; when the independent decoder finds all values in range, parser output (after undoing decorrelation in the \
harness), decoder output and the independent decoder's output are equal; when the independent parser establishes the premise (same \
length, zero padding bits, minimal-length number) Frame::write reproduces the bytes. Non-trivial = a mutant frame the parser accepts, \
or a valid frame with >= 2 partitions.";

pub fn run(ctx: &Ctx) {
    ctx.set_rule(RULE);
    let t = ctx.tier;
    let checked = crate::engine::profile() == "checked";
    ctx.regress(&Structural);
    let n = match (t, checked) {
        (Tier::Quick, false) => 300_000,
        (Tier::Quick, true) => 100_000,
        (Tier::Thorough, false) => 3_000_000,
        (Tier::Thorough, true) => 800_000,
    };
    ctx.search(&Structural, n, || {
        prop_oneof![
            2 => enc_case_strategy(false, 3).prop_map(StructCase::Enc),
            1 => tonal_case_strategy().prop_map(StructCase::Enc),
            3 => gen_case_strategy(600).prop_map(StructCase::Gen),
            4 => mut_case_strategy().prop_map(StructCase::Mut),
            1 => (any::<u64>(), 1u32..200, 0u8..7).prop_map(|(seed, bs, number_class)| StructCase::Bare(super::c03::BareCase { seed, bs, number_class })),
        ]
        .boxed()
    });
}

pub fn engines() -> Vec<Box<dyn crate::engine::DynEngine>> {
    vec![Box::new(Structural)]
}
