//! C14 — an interrupted encode leaves a file whose complete frames are all decodable.

use super::c01::{EncCase, Roundtrip, label_case, strip_digits};
use super::c03::interleave;
use crate::codec::{self, EncErr, ReaderKind};
use crate::engine::{Ctx, Engine, Fail, Outcome, Tier};
use crate::iow::{Op, RecWriter, SharedWriter};
use crate::opts::{self, Seek};
use crate::pcm;
use crate::refdec::{self, Cfg};
use crate::util::guarded;
use proptest::prelude::*;
use std::io::Cursor;

pub struct Crash {
    pub name: &'static str,
}

impl Engine for Crash {
    type Case = EncCase;
    fn name(&self) -> &'static str {
        self.name
    }
    fn check(&self, c: &EncCase) -> Outcome {
        let mut out = Outcome::new();
        out.evals = 0;
        let pcm = c.recipe.expand();
        label_case(&pcm, c, &mut out);
        out.label(match c.opts.seek {
            Seek::None => "seektable:off",
            Seek::Frames(_) => "seektable:frames",
            Seek::Seconds(_) => "seektable:seconds",
            Seek::Default => "seektable:default",
        });
        // one case in three writes to a sink that accepts only part of a large write call
        let dg = crate::util::digest(c) as usize;
        let mut sink = RecWriter::new();
        if dg % 3 == 0 {
            sink.max_write = 1 + (dg >> 8) % 1500;
            out.label("sink-makes-short-writes");
        }
        let sw = SharedWriter::new(sink);
        let total = if c.opts.declare_total { Some(codec::declared_total(&pcm, c.front)) } else { None };
        let at_mark: std::rc::Rc<std::cell::RefCell<Option<RecWriter>>> = Default::default();
        let encoded = {
            let (slot, sink) = (at_mark.clone(), sw.clone());
            codec::with_unfinalized_hook(Box::new(move || *slot.borrow_mut() = Some(sink.snapshot())), || {
                guarded(|| codec::encode_full(sw.clone(), &pcm, &c.opts, c.front, &c.chunks, total, &[], 0, false))
            })
        };
        match encoded {
            Err(p) => {
                out.fails.push(Fail::panic("encode-panic", &p));
                return out;
            }
            Ok(Err(EncErr::Options(_))) => {
                out.label("options-refused");
                return out;
            }
            Ok(Err(e)) => {
                out.fail(format!("encode-error:{}:{}", e.stage(), strip_digits(e.text())), format!("{e:?}"));
                return out;
            }
            Ok(Ok(())) => {}
        }
        let rec = at_mark.borrow_mut().take().unwrap_or_else(|| sw.snapshot());
        if rec.max_write > 0 {
            // the same (deterministic) encode into a sink that accepts every write in full: whatever
            // is held back at this moment, the two outputs must agree byte for byte as far as both go
            let sw_full = SharedWriter::new(RecWriter::new());
            let full_mark: std::rc::Rc<std::cell::RefCell<Option<RecWriter>>> = Default::default();
            let r_full = {
                let (slot, sink) = (full_mark.clone(), sw_full.clone());
                codec::with_unfinalized_hook(Box::new(move || *slot.borrow_mut() = Some(sink.snapshot())), || {
                    guarded(|| codec::encode_full(sw_full.clone(), &pcm, &c.opts, c.front, &c.chunks, total, &[], 0, false))
                })
            };
            if let (Ok(Ok(())), Some(full)) = (r_full, full_mark.borrow_mut().take()) {
                let n = rec.data.len().min(full.data.len());
                if rec.data[..n] != full.data[..n] {
                    let at = rec.data.iter().zip(&full.data).position(|(a, b)| a != b);
                    out.fail(
                        "short-writes-change-the-stream",
                        format!("a sink accepting {} bytes per write received different bytes than one accepting everything: first difference at {:?} of {}", rec.max_write, at, n),
                    );
                    return out;
                }
            }
        }
        // crash images: while the output is append-only (what the crate does) they are the prefixes
        // of the final byte string; an encoder that also rewrites earlier bytes before finalize is
        // judged on the snapshot after each of its writes instead
        let mut end = 0u64;
        let mut boundaries = vec![0usize];
        let mut append_only = true;
        let mut snapshots: Vec<Vec<u8>> = vec![];
        {
            let mut img: Vec<u8> = vec![];
            for op in &rec.ops {
                if let Op::Write { at, len } = op {
                    if *at != end {
                        append_only = false;
                    }
                    end = end.max(*at + *len as u64);
                    boundaries.push(end as usize);
                    // the recording writer keeps final content only; rebuild the image from it
                    // for append-only output, and from the final bytes at the written range otherwise
                    let (lo, hi) = (*at as usize, *at as usize + *len);
                    if img.len() < hi {
                        img.resize(hi, 0);
                    }
                    if hi <= rec.data.len() {
                        img[lo..hi].copy_from_slice(&rec.data[lo..hi]);
                    }
                    if !append_only {
                        snapshots.push(img.clone());
                    }
                }
            }
        }
        let full = &rec.data;
        // frame map of everything written so far, by the independent parser
        let (d, _err) = match refdec::decode_partial(full, &Cfg::LENIENT) {
            Ok(x) => x,
            Err(e) => {
                out.fail(format!("unfinalized-output-unparseable:{}", strip_digits(&e)), format!("independent parser on the complete unfinalized output: {e}"));
                return out;
            }
        };
        // every whole block of the input must be there as a frame (the tail shorter than a block is still buffered)
        let bs = c.opts.block_size as usize;
        let whole = pcm.frames() / bs;
        if d.frames.len() != whole {
            // not a violation of the statement (it speaks about the bytes already written):
            // an encoder may hold a frame back; only recorded for the evidence
            out.label("frames-lag-behind-written-blocks");
        }
        if !append_only {
            // write-call granularity only; each snapshot is judged against its own independent frame map.
            // (A range written twice shows its final content in every snapshot: the recording writer does
            // not keep history. Sound for rewrites of placeholders; a check of intermediate contents would
            // need a journaling writer.)
            out.label("output-not-append-only-before-finalize");
            for img in &snapshots {
                out.evals += 1;
                let Ok((di, _)) = refdec::decode_partial(img, &Cfg::LENIENT) else { continue };
                let n: usize = di.frames.iter().map(|f| f.bs as usize).sum();
                let want = interleave(&di.pcm.iter().map(|c| c[..n.min(c.len())].to_vec()).collect::<Vec<_>>());
                match guarded(|| codec::decode_with(Cursor::new(&img[..]), ReaderKind::Sample, 1000)) {
                    Err(p) => {
                        out.fails.push(Fail::panic("decode-panic", &p));
                        return out;
                    }
                    Ok(Err(_)) => {
                        if img.len() >= di.first_frame && di.first_frame > 0 {
                            out.fail("prefix-with-complete-metadata-cannot-be-opened", format!("snapshot of {} bytes cannot be opened", img.len()));
                            return out;
                        }
                    }
                    Ok(Ok(got)) => {
                        if got.samples != want {
                            out.fail("snapshot-decodes-differently", format!("snapshot of {} bytes: {} samples delivered, {} in its complete frames", img.len(), got.samples.len(), want.len()));
                            return out;
                        }
                    }
                }
            }
            return out;
        }
        let points: Vec<usize> = if full.len() <= 2048 { (0..=full.len()).collect() } else { boundaries.clone() };
        if full.len() <= 2048 {
            out.label("every-byte-length");
        } else {
            out.label("write-call-boundaries");
        }
        let ch = pcm.channels as usize;
        let mut reported = false;
        for k in points {
            out.evals += 1;
            let complete = d.frames.iter().take_while(|f| f.offset + f.len <= k).count();
            let n: usize = d.frames[..complete].iter().map(|f| f.bs as usize).sum();
            let want = interleave(&pcm.data.iter().map(|c| c[..n].to_vec()).collect::<Vec<_>>());
            let inside = complete < d.frames.len() && k > d.frames[complete].offset;
            if inside && complete >= 1 {
                out.nontrivial = true;
                out.label("cut-inside-a-frame-after-a-whole-one");
            }
            match guarded(|| codec::decode_with(Cursor::new(&full[..k]), ReaderKind::Sample, 1000)) {
                Err(p) => {
                    out.fails.push(Fail::panic("decode-panic", &p));
                    return out;
                }
                Ok(Err(_)) => {
                    // could not be opened: fine only if the metadata itself is incomplete
                    if k >= d.first_frame && !reported {
                        reported = true;
                        out.fail("prefix-with-complete-metadata-cannot-be-opened", format!("prefix of {k} bytes (metadata ends at {}) cannot be opened", d.first_frame));
                    }
                }
                Ok(Ok(got)) => {
                    if got.samples != want && !reported {
                        reported = true;
                        let sig = if got.samples.len() > want.len() {
                            "prefix-yields-samples-not-written"
                        } else if got.samples.len() < want.len() {
                            "prefix-loses-complete-frames"
                        } else {
                            "prefix-yields-wrong-samples"
                        };
                        out.fail(
                            sig,
                            format!(
                                "prefix of {k} bytes holds {complete} complete frames ({} samples); decoder delivered {} samples (then {:?}); {ch} ch",
                                want.len(),
                                got.samples.len(),
                                got.err
                            ),
                        );
                    }
                }
            }
        }
        out
    }
    fn sample(&self, c: &EncCase) -> serde_json::Value {
        Roundtrip { name: "x", readers: &[] }.sample(c)
    }
}

pub fn crash_case_strategy() -> BoxedStrategy<EncCase> {
    (opts::opts_strategy(opts::small_block_strategy()), super::c01::front_strategy(), super::c01::chunks_strategy())
        .prop_flat_map(|(o, front, chunks)| {
            let frames = opts::frames_strategy(o.block_size, 6);
            pcm::recipe_strategy(prop_oneof![2 => Just(1u8), 2 => Just(2u8), 1 => 3u8..=8].boxed(), frames).prop_map(move |recipe| EncCase {
                recipe,
                opts: o.clone(),
                front,
                chunks: chunks.clone(),
            })
        })
        .boxed()
}

pub const RULE: &str = "each case encodes generated PCM (C01 space: declared or undeclared total x seek-table policy x padding x extra \
metadata x front-end x chunking) through a recording writer (one in three accepting only 1-1500 bytes per write call) and stops before finalize (the writer is leaked, never dropped); crash \
images are the prefixes of the output at every write-call boundary and, for outputs up to 2 KiB, at every byte length (exhaustive per \
case). Oracle: a short-writing sink receives the same bytes as a full-writing one; for each prefix (for an encoder that rewrites earlier bytes before finalize: for the snapshot after each write) the decoder \
delivers exactly the PCM of the frames the independent frame map says lie wholly inside it, in order, then end-of-data or an error, \
never more and never a panic; a prefix containing the complete metadata must open. Non-trivial = a prefix ending inside a frame after \
at least one whole frame. Distinct = digest of the case.";

pub fn run(ctx: &Ctx) {
    ctx.set_rule(RULE);
    let eng = Crash { name: "crash-prefixes" };
    ctx.regress(&eng);
    let n = match ctx.tier {
        Tier::Quick => 25_000,
        Tier::Thorough => 600_000,
    };
    ctx.search(&eng, n, crash_case_strategy);
}

pub fn engines() -> Vec<Box<dyn crate::engine::DynEngine>> {
    vec![Box::new(Crash { name: "crash-prefixes" })]
}
