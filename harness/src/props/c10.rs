//! C10 — metadata updates never disturb the audio and are size-neutral when in place.

use super::c01::strip_digits;
use crate::codec::{self, Front, ReaderKind};
use crate::engine::{Ctx, Engine, Fail, Outcome, Tier};
use crate::framegen::block_header;
use crate::opts::EncOpts;
use crate::pcm::{ChanRecipe, Kind, Pcm, Recipe};
use crate::refdec::{self, Cfg};
use crate::util::guarded;
use flac_codec::metadata::{Application, Block, BlockList, Padding, Picture, PictureType, VorbisComment, read_blocks, update, update_file};
use proptest::prelude::*;
use serde::{Deserialize, Serialize};
use std::cell::RefCell;
use std::io::Cursor;

#[derive(Serialize, Deserialize, Clone, Debug, Hash, PartialEq, Eq)]
pub struct BaseSpec {
    /// sizes of the PADDING blocks (0..=3 of them)
    pub pads: Vec<u32>,
    /// data lengths of APPLICATION blocks
    pub apps: Vec<u16>,
    pub comment: bool,
    pub picture: bool,
    /// rotate the optional blocks by this amount (padding need not be last)
    pub rotate: u8,
}

#[derive(Serialize, Deserialize, Clone, Debug, Hash, PartialEq, Eq)]
pub enum Edit {
    /// resize (or create) APPLICATION block `idx` so that the metadata grows by `base + d` bytes,
    /// base: 0 = nothing, 1 = size of the first padding block, 2 = that + 4 (its header)
    AppResize { idx: u8, base: u8, d: i8 },
    SetTitle { len: u16 },
    RemoveComment,
    AddPicture { len: u16, ptype: u8 },
    RemovePictures,
    SetFirstPadding { size: u32 },
    RemovePadding,
    AddPadding { size: u16 },
    Noop,
    /// must be refused: two 32x32 PNG icons
    SecondPngIcon,
    /// must be refused: block larger than 2^24 - 1 bytes
    HugeApp,
    /// the callback itself fails
    CallbackErr,
    /// content changes, serialised size does not: application ids get a bit flipped, picture
    /// dimensions change, the comment's TITLE keeps its length but not its text
    SameSizeChange { salt: u8 },
}

#[derive(Serialize, Deserialize, Clone, Debug, Hash, PartialEq, Eq)]
pub struct UpdateCase {
    pub base: BaseSpec,
    pub edits: Vec<Edit>,
    /// use `metadata::update` on a real file instead of `update_file` in memory
    pub on_disk: bool,
    /// 0 = the rebuild target accepts every write in full; n > 0 = at most n bytes per write call
    #[serde(default)]
    pub short_rebuild: u16,
}

thread_local! {
    static AUDIO: RefCell<Option<(Vec<u8>, Vec<u8>, Pcm)>> = const { RefCell::new(None) };
}

/// (STREAMINFO payload, frame bytes, PCM) of a small crate-encoded file
fn audio() -> (Vec<u8>, Vec<u8>, Pcm) {
    AUDIO.with(|a| {
        if a.borrow().is_none() {
            let pcm = Recipe {
                bps: 16,
                rate: 44100,
                frames: 150,
                seed: 7,
                chans: vec![
                    ChanRecipe { kind: Kind::Noise { amp: 12 }, wasted: 0, relation: 0 },
                    ChanRecipe { kind: Kind::Sines { n: 2, amp: 13, noise: 1 }, wasted: 0, relation: 0 },
                ],
                seg: 0, ms_mix: 0,
            }
            .expand();
            let bytes = codec::encode_vec(&pcm, &EncOpts::small(64), Front::Samples, &[]).expect("base encode");
            let d = refdec::decode_file(&bytes, &Cfg::STRICT).expect("base file valid");
            *a.borrow_mut() = Some((bytes[8..42].to_vec(), bytes[d.first_frame..].to_vec(), pcm));
        }
        a.borrow().clone().unwrap()
    })
}

pub fn build_base(b: &BaseSpec) -> Vec<u8> {
    let (si, frames, _) = audio();
    let mut blocks: Vec<(u8, Vec<u8>)> = vec![];
    if b.comment {
        let mut v = vec![];
        let vendor = b"base vendor";
        v.extend_from_slice(&(vendor.len() as u32).to_le_bytes());
        v.extend_from_slice(vendor);
        v.extend_from_slice(&2u32.to_le_bytes());
        for f in [&b"ARTIST=someone"[..], &b"TITLE=t"[..]] {
            v.extend_from_slice(&(f.len() as u32).to_le_bytes());
            v.extend_from_slice(f);
        }
        blocks.push((4, v));
    }
    for (i, n) in b.apps.iter().enumerate() {
        let mut v = vec![b'a', b'p', b'p', b'0' + i as u8];
        v.extend(std::iter::repeat_n(i as u8 + 1, *n as usize));
        blocks.push((2, v));
    }
    if b.picture {
        let mut v = vec![];
        v.extend_from_slice(&3u32.to_be_bytes());
        v.extend_from_slice(&9u32.to_be_bytes());
        v.extend_from_slice(b"image/png");
        v.extend_from_slice(&0u32.to_be_bytes());
        for x in [1u32, 1, 8, 0] {
            v.extend_from_slice(&x.to_be_bytes());
        }
        v.extend_from_slice(&4u32.to_be_bytes());
        v.extend_from_slice(&[1, 2, 3, 4]);
        blocks.push((6, v));
    }
    for n in &b.pads {
        blocks.push((1, vec![0u8; (*n as usize).min((1 << 24) - 1)]));
    }
    if !blocks.is_empty() {
        let r = b.rotate as usize % blocks.len();
        blocks.rotate_left(r);
    }
    let mut out = b"fLaC".to_vec();
    out.extend_from_slice(&block_header(blocks.is_empty(), 0, 34));
    out.extend_from_slice(&si);
    let n = blocks.len();
    for (i, (ty, v)) in blocks.iter().enumerate() {
        out.extend_from_slice(&block_header(i + 1 == n, *ty, v.len()));
        out.extend_from_slice(v);
    }
    out.extend_from_slice(&frames);
    out
}

fn apply_edit(e: &Edit, bl: &mut BlockList) -> Result<(), flac_codec::Error> {
    match e {
        Edit::AppResize { idx, base, d } => {
            let p: i64 = bl.get::<Padding>().map(|p| u32::from(p.size) as i64).unwrap_or(0);
            let g: i64 = match base % 3 {
                0 => 0,
                1 => p,
                _ => p + 4,
            } + *d as i64;
            let napps = bl.get_all::<Application>().count();
            if napps == 0 || *idx as usize >= napps {
                // creating a block costs 4 (header) + 4 (id) bytes
                let len = (g - 8).clamp(0, 70_000) as usize;
                bl.insert(Application { id: 0x66767878, data: vec![0x55; len] });
            } else if let Some(a) = bl.get_all_mut::<Application>().nth(*idx as usize) {
                let len = (a.data.len() as i64 + g).clamp(0, 70_000) as usize;
                a.data.resize(len, 0x77);
            }
        }
        Edit::SetTitle { len } => {
            let v: String = std::iter::repeat_n('x', *len as usize).collect();
            bl.update::<VorbisComment>(|vc| vc.set("TITLE", v));
        }
        Edit::RemoveComment => bl.remove::<VorbisComment>(),
        Edit::AddPicture { len, ptype } => {
            let pt = match ptype % 4 {
                0 => PictureType::FrontCover,
                1 => PictureType::Other,
                2 => PictureType::Png32x32,
                _ => PictureType::BackCover,
            };
            // a second PNG icon would be illegal; keep this edit legal
            let pt = if pt == PictureType::Png32x32 && bl.get_all::<Picture>().any(|p| p.picture_type == PictureType::Png32x32) {
                PictureType::Other
            } else {
                pt
            };
            bl.insert(Picture {
                picture_type: pt,
                media_type: "image/png".into(),
                description: "pic".into(),
                width: 2,
                height: 2,
                color_depth: 24,
                colors_used: None,
                data: vec![0xCC; *len as usize],
            });
        }
        Edit::RemovePictures => bl.remove::<Picture>(),
        Edit::SetFirstPadding { size } => {
            let s = (*size).min((1 << 24) - 1);
            if let Ok(bs) = s.try_into() {
                match bl.get_mut::<Padding>() {
                    Some(p) => p.size = bs,
                    None => {
                        bl.insert(Padding { size: bs });
                    }
                }
            }
        }
        Edit::RemovePadding => bl.remove::<Padding>(),
        Edit::AddPadding { size } => {
            bl.insert(Padding { size: (*size).into() });
        }
        Edit::Noop => {}
        Edit::SecondPngIcon => {
            for _ in 0..2 {
                bl.insert(Picture {
                    picture_type: PictureType::Png32x32,
                    media_type: "image/png".into(),
                    description: String::new(),
                    width: 32,
                    height: 32,
                    color_depth: 24,
                    colors_used: None,
                    data: vec![1, 2, 3],
                });
            }
        }
        Edit::HugeApp => {
            bl.insert(Application { id: 1, data: vec![0; 1 << 24] });
        }
        Edit::CallbackErr => return Err(flac_codec::Error::InvalidSeek),
        Edit::SameSizeChange { salt } => {
            for a in bl.get_all_mut::<Application>() {
                a.id ^= 1 + (*salt as u32 & 0x7F);
                for b in a.data.iter_mut().take(3) {
                    *b ^= 0x5A;
                }
            }
            for p in bl.get_all_mut::<Picture>() {
                p.width = p.width.wrapping_add(1 + *salt as u32);
            }
            bl.update::<VorbisComment>(|vc| {
                if let Some(old) = vc.get("TITLE").map(|s| s.to_string()) {
                    let c = if old.starts_with('q') { 'r' } else { 'q' };
                    vc.set("TITLE", std::iter::repeat_n(c, old.chars().count()).collect::<String>());
                }
            });
        }
    }
    Ok(())
}

fn must_fail(e: &Edit, before: &BlockList) -> bool {
    match e {
        Edit::SecondPngIcon | Edit::HugeApp | Edit::CallbackErr => true,
        _ => {
            let _ = before;
            false
        }
    }
}

fn blocks_of(bytes: &[u8]) -> Result<Vec<Block>, String> {
    read_blocks(Cursor::new(bytes)).collect::<Result<Vec<_>, _>>().map_err(|e| e.to_string())
}

/// compares block lists, ignoring the size of the first PADDING block
fn same_except_first_padding(a: &[Block], b: &[Block]) -> bool {
    if a.len() != b.len() {
        return false;
    }
    let mut skipped = false;
    for (x, y) in a.iter().zip(b) {
        match (x, y) {
            (Block::Padding(_), Block::Padding(_)) if !skipped => skipped = true,
            _ => {
                if x != y {
                    return false;
                }
            }
        }
    }
    true
}

pub struct Updates;

impl Engine for Updates {
    type Case = UpdateCase;
    fn name(&self) -> &'static str {
        "update-history"
    }
    fn check(&self, c: &UpdateCase) -> Outcome {
        let mut out = Outcome::new();
        out.evals = 0;
        let (_, frames, pcm) = audio();
        let want_pcm = pcm.interleaved();
        let mut cur = build_base(&c.base);
        if refdec::decode_file(&cur, &Cfg::STRICT).is_err() {
            out.infra.push("base file is not valid".into());
            return out;
        }
        if c.base.pads.len() >= 2 {
            out.label("several-padding-blocks");
            out.nontrivial = true;
        }
        if c.base.pads.is_empty() {
            out.label("no-padding");
        }
        if c.edits.len() >= 2 {
            out.label("successive-edits");
            out.nontrivial = true;
        }
        for (step, e) in c.edits.iter().enumerate() {
            out.evals += 1;
            if let Edit::AppResize { base, d, .. } = e {
                if d.unsigned_abs() <= 8 {
                    out.label(match base % 3 {
                        0 => "delta-near-zero",
                        1 => "delta-near-padding-size",
                        _ => "delta-near-padding-size+header",
                    });
                    out.nontrivial = true;
                }
            }
            let old = cur.clone();
            let old_first = match refdec::decode_file(&old, &Cfg::LENIENT) {
                Ok(d) => d.first_frame,
                Err(e) => {
                    out.infra.push(format!("file before step {step} is not decodable by refdec: {e}"));
                    return out;
                }
            };
            let edited: RefCell<Option<Vec<Block>>> = RefCell::new(None);
            let before = BlockList::read(Cursor::new(&old)).ok();
            let expect_err = before.as_ref().map(|b| must_fail(e, b)).unwrap_or(false);
            let mut rebuilt_sink = crate::iow::RecWriter::new();
            rebuilt_sink.log_ops = false;
            rebuilt_sink.max_write = c.short_rebuild as usize;
            let mut rebuilt: Vec<u8> = vec![];
            let mut rebuilt_called = false;
            let disk_path = format!("{}/.scratch/c10-{:?}-{}.flac", crate::util::root(), std::thread::current().id(), step).replace(['(', ')'], "");
            let res = guarded(|| -> Result<bool, flac_codec::Error> {
                let f = |bl: &mut BlockList| -> Result<(), flac_codec::Error> {
                    apply_edit(e, bl)?;
                    *edited.borrow_mut() = Some(bl.clone().into_iter().collect());
                    Ok(())
                };
                if c.on_disk {
                    std::fs::create_dir_all(format!("{}/.scratch", crate::util::root())).ok();
                    std::fs::write(&disk_path, &old).map_err(flac_codec::Error::Io)?;
                    let r = update(&disk_path, f);
                    let now = std::fs::read(&disk_path).map_err(flac_codec::Error::Io)?;
                    let _ = std::fs::remove_file(&disk_path);
                    // normalise to the in-memory protocol
                    match r {
                        Ok(false) => {
                            cur = now;
                            Ok(false)
                        }
                        Ok(true) => {
                            rebuilt = now;
                            rebuilt_called = true;
                            Ok(true)
                        }
                        Err(e) => {
                            cur = now;
                            Err(e)
                        }
                    }
                } else {
                    let mut orig = Cursor::new(std::mem::take(&mut cur));
                    let r = update_file(
                        &mut orig,
                        || {
                            rebuilt_called = true;
                            Ok(&mut rebuilt_sink)
                        },
                        f,
                    );
                    cur = orig.into_inner();
                    rebuilt = std::mem::take(&mut rebuilt_sink.data);
                    r
                }
            });
            let edited = edited.into_inner();
            match res {
                Err(p) => {
                    let _ = std::fs::remove_file(&disk_path);
                    out.fails.push(Fail::panic("update-panic", &p));
                    return out;
                }
                Ok(Err(err)) => {
                    out.label("update-refused");
                    if !expect_err {
                        // the statement does not promise that an edit is accepted, only what
                        // happens when it is and that a refusal leaves the original untouched
                        out.label("edit-refused-unexpectedly");
                    }
                    if !c.on_disk || !rebuilt_called {
                        if cur != old {
                            out.fail("original-modified-on-error", format!("step {step} {e:?}: update failed ({err}) but the original file changed"));
                        }
                    }
                    cur = old;
                    continue;
                }
                Ok(Ok(rebuilt_flag)) => {
                    if expect_err {
                        out.fail("illegal-edit-accepted", format!("step {step} {e:?}: update reported success"));
                    }
                    let Some(edited) = edited else {
                        out.fail("callback-not-run", format!("step {step}: update succeeded without running the edit"));
                        return out;
                    };
                    let new = if rebuilt_flag {
                        out.label("rebuilt");
                        if !c.on_disk && cur != old {
                            out.fail("original-modified-on-rebuild", format!("step {step} {e:?}: reported as rebuilt but the original changed"));
                        }
                        if !rebuilt_called {
                            out.fail("rebuilt-without-new-file", format!("step {step}: Ok(true) but the rebuild closure was never called"));
                        }
                        rebuilt.clone()
                    } else {
                        out.label("in-place");
                        if rebuilt_called && !c.on_disk {
                            out.label("in-place-result-after-opening-rebuild-target");
                        }
                        if cur.len() != old.len() {
                            out.fail("in-place-changed-length", format!("step {step} {e:?}: {} -> {} bytes", old.len(), cur.len()));
                        }
                        cur.clone()
                    };
                    // audio untouched
                    let nd = match refdec::decode_file(&new, &Cfg::LENIENT) {
                        Ok(d) => d,
                        Err(err) => {
                            out.fail(format!("result-not-decodable:{}", strip_digits(&err)), format!("step {step} {e:?}: {err}"));
                            return out;
                        }
                    };
                    if new[nd.first_frame..] != frames[..] {
                        out.fail(
                            if rebuilt_flag { "audio-bytes-changed:rebuilt" } else { "audio-bytes-changed:in-place" },
                            format!("step {step} {e:?}: bytes from the first frame on differ from the original frames"),
                        );
                    }
                    if !rebuilt_flag && nd.first_frame != old_first {
                        out.fail("in-place-moved-first-frame", format!("step {step} {e:?}: first frame at {} was at {old_first}", nd.first_frame));
                    }
                    // blocks read back
                    match blocks_of(&new) {
                        Err(err) => out.fail(format!("result-metadata-unreadable:{}", strip_digits(&err)), format!("step {step} {e:?}: {err}")),
                        Ok(got) => {
                            let ok = if rebuilt_flag { got == edited } else { same_except_first_padding(&got, &edited) };
                            if !ok {
                                out.fail(
                                    if rebuilt_flag { "blocks-differ-from-edit:rebuilt" } else { "blocks-differ-from-edit:in-place" },
                                    format!("step {step} {e:?}: read back {} blocks, edited list has {}", got.len(), edited.len()),
                                );
                            }
                        }
                    }
                    // decodes to the same PCM through the crate
                    match guarded(|| codec::decode_with(Cursor::new(&new), ReaderKind::SampleToEnd, 0)) {
                        Ok(Ok(d)) if d.err.is_none() && d.samples == want_pcm => {}
                        Ok(Ok(d)) => out.fail("pcm-changed", format!("step {step} {e:?}: err={:?}, {} samples", d.err, d.samples.len())),
                        Ok(Err(err)) => out.fail("result-cannot-be-opened", format!("step {step} {e:?}: {err}")),
                        Err(p) => out.fails.push(Fail::panic("decode-panic", &p)),
                    }
                    cur = new;
                }
            }
        }
        out
    }
}

pub fn base_strategy() -> BoxedStrategy<BaseSpec> {
    let pad = prop_oneof![2 => Just(0u32), 1 => Just(1u32), 1 => Just(17u32), 3 => 0u32..64, 2 => 64u32..5000];
    (
        proptest::collection::vec(pad, 0..=3),
        proptest::collection::vec(prop_oneof![Just(0u16), 0u16..40, 0u16..3000], 0..3),
        any::<bool>(),
        any::<bool>(),
        prop_oneof![2 => Just(0u8), 1 => any::<u8>()],
    )
        .prop_map(|(pads, apps, comment, picture, rotate)| BaseSpec { pads, apps, comment, picture, rotate })
        .boxed()
}

pub fn edit_strategy() -> BoxedStrategy<Edit> {
    prop_oneof![
        8 => (0u8..3, 0u8..3, -9i8..=9).prop_map(|(idx, base, d)| Edit::AppResize { idx, base, d }),
        2 => (0u8..3, 0u8..3, any::<i8>()).prop_map(|(idx, base, d)| Edit::AppResize { idx, base, d }),
        2 => prop_oneof![0u16..40, 0u16..5000].prop_map(|len| Edit::SetTitle { len }),
        1 => Just(Edit::RemoveComment),
        1 => (prop_oneof![0u16..40, 0u16..5000], 0u8..4).prop_map(|(len, ptype)| Edit::AddPicture { len, ptype }),
        1 => Just(Edit::RemovePictures),
        2 => prop_oneof![0u32..64, 0u32..6000].prop_map(|size| Edit::SetFirstPadding { size }),
        1 => Just(Edit::RemovePadding),
        1 => (0u16..200).prop_map(|size| Edit::AddPadding { size }),
        1 => Just(Edit::Noop),
        1 => Just(Edit::SecondPngIcon),
        1 => Just(Edit::CallbackErr),
        2 => any::<u8>().prop_map(|salt| Edit::SameSizeChange { salt }),
    ]
    .boxed()
}

pub const RULE: &str = "base files = identical audio frames behind independently assembled metadata (0-3 padding blocks of sizes 0, 1, \
17, small, thousands of bytes and near 2^24; comment, picture, application blocks; any block order); histories of 1-5 edits applied \
successively through update_file (in memory) or update (real file): application blocks resized so that the metadata grows by exactly \
(0 | first padding size | padding size + 4) + d for d in -9..=9, comments/pictures/padding added, removed, resized, edits that must be \
refused (second PNG icon, block > 2^24-1 bytes, failing callback). Oracle: Ok(false) => same length, first frame not moved, frame bytes \
identical, blocks read back == edited list except the first padding's size; Ok(true) => original untouched, rebuilt = edited blocks + \
identical frames; Err => original byte-identical, and only for edits that must be refused; result decodes to the same PCM. First-frame \
offsets come from the independent parser. Non-trivial = delta within +-8 of a fit boundary, >= 2 successive edits, or >= 2 padding blocks.";

pub fn run(ctx: &Ctx) {
    ctx.set_rule(RULE);
    let t = ctx.tier;
    ctx.regress(&Updates);
    let n = match t {
        Tier::Quick => 300_000,
        Tier::Thorough => 6_000_000,
    };
    ctx.search(&Updates, n, || {
        (
            base_strategy(),
            proptest::collection::vec(edit_strategy(), 1..=5),
            prop_oneof![30 => Just(false), 1 => Just(true)],
            prop_oneof![4 => Just(0u16), 1 => 1u16..200, 1 => 200u16..5000],
        )
            .prop_map(|(base, edits, on_disk, short_rebuild)| UpdateCase { base, edits, on_disk, short_rebuild })
            .boxed()
    });
    // the 24-bit limit: first padding block a bytes below 2^24 - 1, first edit frees b bytes:
    // every (a, b) around the point where the grown padding would no longer fit its size field
    let big = Updates;
    let mut cases = vec![];
    let (na, nb) = if t == Tier::Quick { (6u32, 11i8) } else { (12u32, 20i8) };
    for a in 0..na {
        for b in 0..nb {
            let k = a as usize * nb as usize + b as usize;
            cases.push(UpdateCase {
                base: BaseSpec { pads: vec![(1 << 24) - 1 - a, 10], apps: vec![40, 0], comment: k % 2 == 0, picture: false, rotate: (k % 5) as u8 },
                edits: vec![
                    Edit::AppResize { idx: 0, base: 0, d: -b },
                    Edit::AppResize { idx: 0, base: 0, d: (k as i8 % 7) + 1 },
                    if k % 3 == 0 { Edit::HugeApp } else { Edit::RemoveComment },
                    Edit::SetTitle { len: 100 },
                ],
                on_disk: false,
                short_rebuild: 0,
            });
        }
    }
    ctx.run_cases(&big, &cases);
}

pub fn engines() -> Vec<Box<dyn crate::engine::DynEngine>> {
    vec![Box::new(Updates)]
}
