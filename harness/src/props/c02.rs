//! C02 — encoder output is conforming RFC 9639 FLAC that an independent decoder accepts.

use super::c01::{self, EncCase, Roundtrip, classify_encoded, label_case, strip_digits};
use crate::codec::{self, EncErr};
use crate::engine::{Ctx, Engine, Fail, Outcome, Tier};
use crate::opts::{self, EncOpts};
use crate::pcm::{self, Pcm, Recipe};
use crate::refdec::{self, Cfg};
use crate::util::guarded;
use flac_codec::encode::FlacStreamWriter;
use proptest::prelude::*;
use serde::{Deserialize, Serialize};

pub struct Conformance {
    pub name: &'static str,
}

/// Reason classes of the strict validator, with digits removed, make the signature.
pub fn validate_file(bytes: &[u8], pcm: &Pcm, opts: &EncOpts, out: &mut Outcome) {
    match refdec::decode_file(bytes, &Cfg::STRICT) {
        Err(e) => out.fail(format!("nonconforming:{}", strip_digits(&e)), format!("independent validator rejects the file: {e}")),
        Ok(d) => {
            if d.pcm != pcm.data {
                out.fail("independent-decode-mismatch", "independent decoder accepts the file but reconstructs different PCM");
            }
            if d.info.channels != pcm.channels || d.info.bps != pcm.bps || d.info.rate != pcm.rate {
                out.fail("streaminfo-params", format!("STREAMINFO {:?} does not describe the input", d.info));
            }
            if d.info.total != pcm.frames() as u64 {
                out.fail("streaminfo-total", format!("STREAMINFO total {} != {}", d.info.total, pcm.frames()));
            }
            if d.info.min_bs != opts.block_size || d.info.max_bs != opts.block_size {
                out.fail("streaminfo-blocksize", format!("STREAMINFO block sizes {}..{} != option {}", d.info.min_bs, d.info.max_bs, opts.block_size));
            }
            if d.md5_ok != Some(true) {
                out.fail("streaminfo-md5", format!("MD5 state {:?}", d.md5_ok));
            }
            // metadata block types must be known (0..=6) and STREAMINFO unique (checked by refdec)
            for (ty, _, _) in &d.blocks {
                if *ty > 6 {
                    out.fail("metadata-unknown-type", format!("block type {ty}"));
                }
            }
        }
    }
}

impl Engine for Conformance {
    type Case = EncCase;
    fn name(&self) -> &'static str {
        self.name
    }
    fn check(&self, c: &EncCase) -> Outcome {
        let mut out = Outcome::new();
        let pcm = c.recipe.expand();
        label_case(&pcm, c, &mut out);
        if pcm.bps == 32 && pcm.data.iter().any(|ch| ch.iter().any(|s| *s == i32::MIN || *s == i32::MAX)) {
            out.label("32bit-full-scale");
        }
        let bytes = match guarded(|| codec::encode_vec(&pcm, &c.opts, c.front, &c.chunks)) {
            Err(p) => {
                out.fails.push(Fail::panic("encode-panic", &p));
                return out;
            }
            Ok(Err(EncErr::Options(e))) => {
                let _ = e;
                out.label("options-refused");
                return out;
            }
            Ok(Err(e)) => {
                out.fail(format!("encode-error:{}:{}", e.stage(), strip_digits(e.text())), format!("{:?}", e));
                return out;
            }
            Ok(Ok(b)) => b,
        };
        classify_encoded(&bytes, &c.opts, &mut out);
        validate_file(&bytes, &pcm, &c.opts, &mut out);
        out
    }
    fn sample(&self, c: &EncCase) -> serde_json::Value {
        Roundtrip { name: "x", readers: &[] }.sample(c)
    }
}

// ---------------------------------------------------------------------------------------------
// raw frame streams

#[derive(Serialize, Deserialize, Clone, Debug, Hash, PartialEq, Eq)]
pub struct FrameSpec {
    pub recipe: Recipe,
}

#[derive(Serialize, Deserialize, Clone, Debug, Hash, PartialEq, Eq)]
pub struct StreamCase {
    pub frames: Vec<FrameSpec>,
    pub opts: EncOpts,
}

pub const SUBSET_BPS: [u8; 6] = [8, 12, 16, 20, 24, 32];

pub fn subset_rate_strategy() -> BoxedStrategy<u32> {
    prop_oneof![
        3 => proptest::sample::select(&[88200u32, 176400, 192000, 8000, 16000, 22050, 24000, 32000, 44100, 48000, 96000][..]),
        2 => (1u32..255).prop_map(|k| k * 1000),
        2 => 1u32..65535,
        2 => (1u32..65535).prop_map(|k| k * 10),
        1 => proptest::sample::select(&[1u32, 9, 10, 999, 1000, 254000, 65534, 65530, 655340, 11025][..]),
    ]
    .boxed()
}

pub fn frame_spec_strategy(max_len: u32) -> BoxedStrategy<FrameSpec> {
    (
        proptest::sample::select(&SUBSET_BPS[..]),
        pcm::channels_strategy(),
        subset_rate_strategy(),
        prop_oneof![
            6 => 1u32..=64,
            6 => 16u32..=max_len.max(17),
            2 => proptest::sample::select(&[192u32, 256, 576, 1152, 4096, 4608][..]),
            // beyond the streamable-subset limits (4608 at <= 48 kHz, 16384 otherwise): legal for a raw stream
            1 => proptest::sample::select(&[4609u32, 8192, 16384, 16385, 40000, 65535][..]),
        ],
        any::<u64>(),
    )
        .prop_flat_map(|(bps, nch, rate, frames, seed)| {
            proptest::collection::vec(pcm::chan_strategy(bps), nch as usize..=nch as usize)
                .prop_map(move |chans| FrameSpec { recipe: Recipe { bps, rate, frames, seed, chans, seg: 0, ms_mix: 0 } })
        })
        .boxed()
}

pub fn stream_case_strategy(max_frames: usize, max_len: u32) -> BoxedStrategy<StreamCase> {
    (
        proptest::collection::vec(frame_spec_strategy(max_len), 1..=max_frames),
        opts::opts_strategy(Just(4096u16).boxed()),
    )
        .prop_map(|(frames, opts)| StreamCase { frames, opts })
        .boxed()
}

/// Writes the frames with `FlacStreamWriter`; returns the bytes and each frame's (offset, len).
pub fn write_stream(c: &StreamCase) -> Result<(Vec<u8>, Vec<(usize, usize)>, Vec<Pcm>), String> {
    let o = c.opts.to_options()?;
    let mut buf: Vec<u8> = vec![];
    let mut spans = vec![];
    let mut pcms = vec![];
    {
        let mut w = FlacStreamWriter::new(&mut buf, o);
        let mut last = 0usize;
        for f in &c.frames {
            let pcm = f.recipe.expand();
            w.write(pcm.rate, pcm.channels, pcm.bps as u32, &pcm.interleaved())
                .map_err(|e| format!("stream write: {e}"))?;
            pcms.push(pcm);
            // the writer borrows buf mutably; frame boundaries are recovered below
            let _ = &mut last;
        }
    }
    // recover boundaries with the independent parser
    let mut off = 0usize;
    for _ in &c.frames {
        match refdec::decode_frame(&buf, off, None, &Cfg::LENIENT) {
            Ok((fi, _)) => {
                spans.push((off, fi.len));
                off += fi.len;
            }
            Err(e) => return Err(format!("FV_NONCONFORMING frame at byte {off}: {e}")),
        }
    }
    if off != buf.len() {
        return Err(format!("FV_NONCONFORMING {} stray bytes after the last frame", buf.len() - off));
    }
    Ok((buf, spans, pcms))
}

pub struct StreamConformance;

impl Engine for StreamConformance {
    type Case = StreamCase;
    fn name(&self) -> &'static str {
        "stream-writer-conformance"
    }
    fn check(&self, c: &StreamCase) -> Outcome {
        let mut out = Outcome::new();
        out.evals = c.frames.len() as u64;
        let r = guarded(|| write_stream(c));
        let (buf, spans, pcms) = match r {
            Err(p) => {
                out.fails.push(Fail::panic("stream-write-panic", &p));
                return out;
            }
            Ok(Err(e)) => {
                out.fail(format!("stream-write:{}", strip_digits(&e)), e);
                return out;
            }
            Ok(Ok(x)) => x,
        };
        let mut param_change = false;
        for (i, ((off, len), pcm)) in spans.iter().zip(&pcms).enumerate() {
            match refdec::decode_frame(&buf[..off + len], *off, None, &Cfg::STRICT) {
                Err(e) => out.fail(format!("nonconforming-frame:{}", strip_digits(&e)), format!("frame {i}: {e}")),
                Ok((fi, chans)) => {
                    if chans != pcm.data {
                        out.fail("independent-decode-mismatch", format!("frame {i} decodes to different samples"));
                    }
                    if fi.number != i as u64 || fi.variable {
                        out.fail("frame-number", format!("frame {i} is numbered {} (variable={})", fi.number, fi.variable));
                    }
                    if fi.rate != pcm.rate || fi.bps != pcm.bps || chans.len() != pcm.channels as usize {
                        out.fail("frame-params", format!("frame {i} header does not carry the written parameters"));
                    }
                    if fi.rate_code == 0 || fi.bps_code == 0 {
                        out.fail("non-subset-code", format!("frame {i} refers to STREAMINFO (rate code {}, depth code {})", fi.rate_code, fi.bps_code));
                    }
                    if matches!(fi.rate_code, 12 | 13 | 14) {
                        out.label("rate:uncommon-code");
                    }
                    if matches!(fi.bs_code, 6 | 7) {
                        out.label("bs:uncommon-code");
                    }
                    if fi.subframes.iter().any(|s| s.kind == "LPC" || (s.kind == "FIXED" && s.order > 0)) {
                        out.nontrivial = true;
                    }
                }
            }
            if i > 0 {
                let p = &pcms[i - 1];
                if p.rate != pcm.rate || p.bps != pcm.bps || p.channels != pcm.channels {
                    param_change = true;
                }
            }
        }
        if param_change {
            out.label("param-change");
        }
        out
    }
    fn sample(&self, c: &StreamCase) -> serde_json::Value {
        serde_json::json!({"frames": c.frames.iter().map(|f| format!("{}Hz {}ch {}bit x{}", f.recipe.rate, f.recipe.chans.len(), f.recipe.bps, f.recipe.frames)).collect::<Vec<_>>()})
    }
}

pub const RULE: &str = "same case space as C01 (PCM recipe x options x front-end x chunking) plus FlacStreamWriter frame sequences with \
per-frame parameters; the finished bytes are judged only by the independent strict RFC 9639 validator/decoder (no crate decoder): \
every header code, coded number, CRC-8/16, padding, partition/residual/predictor/wasted-bit rule, frame numbering, block-size \
discipline, STREAMINFO fields and MD5, and bit-exact reconstruction of the input. Non-trivial = at least one FIXED(order>=1)/LPC \
subframe or a final block no longer than 2 x max order. Distinct = digest of the case.";

pub fn run(ctx: &Ctx) {
    ctx.set_rule(RULE);
    ctx.assume("the independent validator (harness/src/refdec.rs) implements RFC 9639; it is self-checked against the repository fixtures and the independent frame generator (C03)");
    ctx.assume("bit depths 1-3 are accepted by the validator although RFC 9639 names 4 as the minimum (the crate documents 1..=32)");
    let t = ctx.tier;
    let checked = crate::engine::profile() == "checked";
    let conf = Conformance { name: "conformance" };
    ctx.regress_named(&conf, &["conformance-large", "conformance-shortlen-grid", "conformance-tonal"]);
    ctx.regress(&StreamConformance);

    let short = Conformance { name: "conformance-shortlen-grid" };
    let (max_len, depths) = match (t, checked) {
        (Tier::Quick, false) => (64, 4),
        (Tier::Quick, true) => (32, 1),
        (Tier::Thorough, _) => (256, 4),
    };
    ctx.enumerate(&short, c01::shortlen_total(max_len, depths), |i| Some(c01::shortlen_case(i, max_len)));
    ctx.set_exhaustive("conformance-shortlen-grid", true, "full grid: lengths x 40 shapes x block {16,32} x LPC {none,4,8,32} x partition order {0,2,6,15} x depths {16,8,24,32}");

    let n = match (t, checked) {
        (Tier::Quick, false) => 60_000,
        (Tier::Quick, true) => 10_000,
        (Tier::Thorough, false) => 2_000_000,
        (Tier::Thorough, true) => 400_000,
    };
    ctx.search(&conf, n, || c01::enc_case_strategy(false, 5));
    let large = Conformance { name: "conformance-large" };
    let n = match (t, checked) {
        (Tier::Quick, false) => 2_000,
        (Tier::Quick, true) => 300,
        (Tier::Thorough, false) => 80_000,
        (Tier::Thorough, true) => 12_000,
    };
    ctx.search(&large, n, || c01::enc_case_strategy(true, 2));
    // music-like material: LPC subframes of all orders, mid/side frames, judged by the independent decoder
    let tonal = Conformance { name: "conformance-tonal" };
    let n = match (t, checked) {
        (Tier::Quick, false) => 6_000,
        (Tier::Quick, true) => 1_000,
        (Tier::Thorough, false) => 300_000,
        (Tier::Thorough, true) => 50_000,
    };
    ctx.search(&tonal, n, c01::tonal_case_strategy);
    let n = match (t, checked) {
        (Tier::Quick, false) => 8_000,
        (Tier::Quick, true) => 2_000,
        (Tier::Thorough, false) => 300_000,
        (Tier::Thorough, true) => 60_000,
    };
    ctx.search(&StreamConformance, n, || stream_case_strategy(5, 300));
}

pub fn engines() -> Vec<Box<dyn crate::engine::DynEngine>> {
    vec![
        Box::new(Conformance { name: "conformance" }),
        Box::new(Conformance { name: "conformance-shortlen-grid" }),
        Box::new(Conformance { name: "conformance-large" }),
        Box::new(Conformance { name: "conformance-tonal" }),
        Box::new(StreamConformance),
    ]
}
