//! C15 — writer APIs validate their parameters and honour the declared length contract.

use super::c01::strip_digits;
use crate::codec::{self, Front, NoDrop, ReaderKind};
use crate::engine::{Ctx, Engine, Fail, Outcome, Tier};
use crate::opts::{Seek, Win};
use crate::pcm::{ChanRecipe, Kind, Pcm, Recipe};
use crate::util::guarded;
use flac_codec::byteorder::LittleEndian;
use flac_codec::encode::{FlacByteWriter, FlacChannelWriter, FlacSampleWriter, FlacStreamWriter, Options, Window};
use proptest::prelude::*;
use serde::{Deserialize, Serialize};
use std::io::{Cursor, Write};

#[derive(Serialize, Deserialize, Clone, Debug, Hash, PartialEq, Eq)]
pub enum TotalSel {
    None,
    /// the exact amount that will be written (in the front-end's unit)
    Exact,
    /// explicit value in the front-end's unit
    Raw(u64),
}

#[derive(Serialize, Deserialize, Clone, Debug, Hash, PartialEq, Eq)]
pub enum Fill {
    /// write exactly the PCM frames the case carries
    All,
    /// leave out the last `k` PCM frames
    Under(u16),
    /// write `k` PCM frames more than declared
    Over(u16),
}

#[derive(Serialize, Deserialize, Clone, Debug, Hash, PartialEq, Eq)]
pub struct ParamCase {
    pub rate: u32,
    pub bps: u32,
    pub channels: u8,
    pub total: TotalSel,
    pub block_size: u16,
    pub max_lpc: Option<u8>,
    pub max_part: u32,
    pub padding: Option<u32>,
    pub window: Win,
    pub seek: Seek,
    pub front: Front,
    /// PCM frames in the test signal
    pub frames: u16,
    pub fill: Fill,
    pub chunk: u16,
}

fn build_options(c: &ParamCase, out: &mut Outcome) -> Option<Options> {
    // every setter must return Ok exactly for documented values
    let mut o = Options::default();
    macro_rules! step {
        ($name:literal, $legal:expr, $call:expr) => {{
            match guarded(|| $call) {
                Err(p) => {
                    out.fails.push(Fail::panic(concat!("options-panic:", $name), &p));
                    return None;
                }
                Ok(Ok(v)) => {
                    if !$legal {
                        out.fail(concat!("illegal-option-accepted:", $name), format!("{} accepted {:?}", $name, c));
                        return None;
                    }
                    o = v;
                }
                Ok(Err(e)) => {
                    if $legal {
                        out.fail(concat!("legal-option-refused:", $name), format!("{} refused: {e}", $name));
                    } else {
                        out.label(concat!("refused:", $name));
                    }
                    return None;
                }
            }
        }};
    }
    let oc = o.clone();
    step!("block_size", c.block_size >= 16, oc.block_size(c.block_size));
    let oc = o.clone();
    step!("max_lpc_order", c.max_lpc.map(|n| (1..=32).contains(&n)).unwrap_or(true), oc.max_lpc_order(c.max_lpc));
    let oc = o.clone();
    step!("max_partition_order", c.max_part <= 15, oc.max_partition_order(c.max_part));
    if let Some(p) = c.padding {
        let oc = o.clone();
        step!("padding", p < (1 << 24), oc.padding(p));
    }
    o = o.window(match c.window {
        Win::Rect => Window::Rectangle,
        Win::Hann => Window::Hann,
        Win::Tukey(b) => Window::Tukey(f32::from_bits(b)),
    });
    o = match c.seek {
        Seek::None => o.no_seektable(),
        Seek::Frames(n) => o.seektable_frames(n as usize),
        Seek::Seconds(n) => o.seektable_seconds(n),
        Seek::Default => o,
    };
    Some(o)
}

fn signal(c: &ParamCase, frames: usize) -> Pcm {
    let bps = c.bps.clamp(1, 32) as u8;
    let ch = c.channels.clamp(1, 8);
    Recipe {
        bps,
        rate: c.rate & 0xFFFFF,
        frames: frames as u32,
        seed: 5,
        chans: (0..ch).map(|i| ChanRecipe { kind: if i % 2 == 0 { Kind::Noise { amp: bps - 1 } } else { Kind::Sines { n: 2, amp: bps - 1, noise: 1 } }, wasted: 0, relation: 0 }).collect(),
        seg: 0, ms_mix: 0,
    }
    .expand()
}

pub struct Params;

impl Engine for Params {
    type Case = ParamCase;
    fn name(&self) -> &'static str {
        "writer-parameters"
    }
    fn check(&self, c: &ParamCase) -> Outcome {
        let mut out = Outcome::new();
        let Some(opts) = build_options(c, &mut out) else {
            out.nontrivial = true;
            return out;
        };
        let boundary = c.rate == 0
            || c.rate >= (1 << 20) - 1
            || matches!(c.bps, 0 | 1 | 32 | 33)
            || matches!(c.channels, 0 | 1 | 8 | 9)
            || c.block_size <= 17
            || c.block_size == 65535
            || matches!(c.max_lpc, Some(1) | Some(32))
            || matches!(c.max_part, 0 | 15)
            || matches!(c.padding, Some(0) | Some(0xFFFFFF));
        out.nontrivial = boundary;
        let params_legal = c.rate < (1 << 20) && (1..=32).contains(&c.bps) && (1..=8).contains(&c.channels);
        let ch = c.channels.clamp(1, 8) as usize;
        let bytes_per = (c.bps.clamp(1, 32) as usize).div_ceil(8);
        let unit = match c.front {
            Front::BytesLE | Front::BytesBE => (bytes_per * ch) as u64,
            Front::Samples => ch as u64,
            Front::Channels => 1,
        };
        // what will be written
        let declared_frames = c.frames.max(1) as u64;
        let written_frames: u64 = match c.fill {
            Fill::All => declared_frames,
            Fill::Under(k) => declared_frames.saturating_sub(k.max(1) as u64),
            Fill::Over(k) => declared_frames + k.max(1) as u64,
        };
        let total: Option<u64> = match &c.total {
            TotalSel::None => None,
            TotalSel::Exact => Some(declared_frames * unit),
            TotalSel::Raw(v) => Some(*v),
        };
        // is the declared total itself acceptable?
        let total_legal = match total {
            None => Some(true),
            Some(0) => None, // not specified consistently across front-ends: no expectation
            Some(v) => Some(v % unit == 0 && v / unit < (1u64 << 36)),
        };
        // skip constructions whose only effect is enumerating > 10^7 placeholder seek points
        if let Some(v) = total {
            if c.seek != Seek::None && v / unit / c.block_size.max(16) as u64 > 10_000_000 {
                out.label("skipped:huge-placeholder-table");
                return out;
            }
        }
        let pcm = signal(c, written_frames as usize);
        let mut cur = Cursor::new(Vec::new());
        let chunk = c.chunk.max(1) as usize;
        let cfront = c.front;
        // constructor + writes + finalize, recording the stage of the first error
        let r = guarded(|| -> Result<(), (&'static str, String)> {
            match cfront {
                Front::BytesLE | Front::BytesBE => {
                    let mut w = NoDrop::new(
                        FlacByteWriter::endian(&mut cur, LittleEndian, opts.clone(), c.rate, c.bps, c.channels, total).map_err(|e| ("new", e.to_string()))?,
                    );
                    let data = pcm.to_bytes(false);
                    for piece in data.chunks(chunk * bytes_per) {
                        w.write_all(piece).map_err(|e| ("write", e.to_string()))?;
                    }
                    w.into_inner().finalize().map_err(|e| ("finalize", e.to_string()))
                }
                Front::Samples => {
                    let mut w = NoDrop::new(FlacSampleWriter::new(&mut cur, opts.clone(), c.rate, c.bps, c.channels, total).map_err(|e| ("new", e.to_string()))?);
                    let data = pcm.interleaved();
                    for piece in data.chunks(chunk) {
                        w.write(piece).map_err(|e| ("write", e.to_string()))?;
                    }
                    w.into_inner().finalize().map_err(|e| ("finalize", e.to_string()))
                }
                Front::Channels => {
                    let mut w = NoDrop::new(FlacChannelWriter::new(&mut cur, opts.clone(), c.rate, c.bps, c.channels, total).map_err(|e| ("new", e.to_string()))?);
                    let n = pcm.frames();
                    let mut off = 0;
                    while off < n {
                        let m = chunk.min(n - off);
                        let sl: Vec<&[i32]> = pcm.data.iter().map(|ch| &ch[off..off + m]).collect();
                        w.write(&sl).map_err(|e| ("write", e.to_string()))?;
                        off += m;
                    }
                    w.into_inner().finalize().map_err(|e| ("finalize", e.to_string()))
                }
            }
        });
        let res = match r {
            Err(p) => {
                out.fails.push(Fail::panic("writer-panic", &p));
                return out;
            }
            Ok(r) => r,
        };
        // expectations
        match (&res, params_legal, total_legal) {
            (Err(("new", _)), false, _) => out.label("constructor-refused-illegal-parameters"),
            (Err(("new", _)), true, Some(false)) => out.label("constructor-refused-illegal-total"),
            (Err(("new", _)), true, None) => out.label("constructor-refused-total-0"),
            (Err(("new", e)), true, Some(true)) => out.fail(format!("legal-parameters-refused:{}", strip_digits(e)), format!("constructor refused {c:?}: {e}")),
            (_, false, _) => out.fail("illegal-parameters-accepted", format!("constructor accepted rate {} / depth {} / channels {}", c.rate, c.bps, c.channels)),
            (_, true, Some(false)) => out.fail("illegal-total-accepted", format!("constructor accepted total {total:?} (unit {unit})")),
            (res, true, _) => {
                // the declared-length contract
                let declared: Option<u64> = total.filter(|v| *v > 0).map(|v| v / unit);
                match declared {
                    Some(t) if written_frames > t => {
                        out.label("overfilled");
                        if res.is_ok() {
                            out.fail("overfill-not-reported", format!("declared {t} PCM frames, wrote {written_frames}: no call reported an error"));
                        }
                    }
                    Some(t) if written_frames < t => {
                        out.label("underfilled");
                        match res {
                            Ok(()) => out.fail("underfill-not-reported", format!("declared {t} PCM frames, wrote {written_frames}: finalize succeeded")),
                            Err((stage, e)) if *stage != "finalize" => {
                                out.fail(format!("underfill-error-before-finalize:{}", strip_digits(e)), format!("declared {t}, wrote {written_frames}: {stage} failed with {e}"))
                            }
                            Err(_) => {}
                        }
                    }
                    _ => {
                        // exact or undeclared: must succeed and work
                        out.label(if declared.is_some() { "exactly-filled" } else { "undeclared-total" });
                        if written_frames == 0 {
                            // nothing written: an error is the documented outcome
                            if res.is_ok() {
                                out.label("empty-stream-accepted");
                            }
                        } else {
                            match res {
                                Err((stage, e)) => out.fail(format!("legal-use-failed:{stage}:{}", strip_digits(e)), format!("{c:?}: {stage}: {e}")),
                                Ok(()) => {
                                    let bytes = cur.into_inner();
                                    match guarded(|| codec::decode_with(Cursor::new(&bytes), ReaderKind::SampleToEnd, 0)) {
                                        Err(p) => out.fails.push(Fail::panic("decode-panic", &p)),
                                        Ok(Err(e)) => out.fail(format!("result-cannot-be-opened:{}", strip_digits(&e)), e),
                                        Ok(Ok(d)) => {
                                            if d.err.is_some() || d.samples != pcm.interleaved() {
                                                out.fail("result-does-not-round-trip", format!("err {:?}, {} samples of {}", d.err, d.samples.len(), pcm.interleaved().len()));
                                            }
                                            if d.total != Some(written_frames) {
                                                out.fail("recorded-total-wrong", format!("STREAMINFO total {:?}, {written_frames} PCM frames written", d.total));
                                            }
                                            if d.rate != c.rate || d.bps != c.bps || d.channels != c.channels {
                                                out.fail("recorded-parameters-wrong", format!("{} Hz / {} bit / {} ch recorded for {c:?}", d.rate, d.bps, d.channels));
                                            }
                                        }
                                    }
                                }
                            }
                        }
                    }
                }
            }
        }
        out
    }
}

#[derive(Serialize, Deserialize, Clone, Debug, Hash, PartialEq, Eq)]
pub struct StreamParamCase {
    pub rate: u32,
    pub bps: u32,
    pub channels: u8,
    pub samples: u32,
}

pub struct StreamParams;

fn subset_rate(r: u32) -> bool {
    const FIXED: [u32; 11] = [88200, 176400, 192000, 8000, 16000, 22050, 24000, 32000, 44100, 48000, 96000];
    FIXED.contains(&r) || (r % 1000 == 0 && r / 1000 < 255) || (r % 10 == 0 && r / 10 < 65535) || r < 65535
}

impl Engine for StreamParams {
    type Case = StreamParamCase;
    fn name(&self) -> &'static str {
        "stream-writer-parameters"
    }
    fn check(&self, c: &StreamParamCase) -> Outcome {
        let mut out = Outcome::new();
        let n = c.samples as usize;
        let bps = c.bps.clamp(1, 32) as u8;
        let lim = crate::pcm::max_of(bps);
        let data: Vec<i32> = (0..n).map(|i| ((i as i32 * 37) % 200 - 100).clamp(-lim - 1, lim)).collect();
        let mut buf = vec![];
        let r = guarded(|| {
            let mut w = FlacStreamWriter::new(&mut buf, Options::default());
            w.write(c.rate, c.channels, c.bps, &data).map_err(|e| e.to_string())
        });
        let ch = c.channels as usize;
        let legal = subset_rate(c.rate) && matches!(c.bps, 8 | 12 | 16 | 20 | 24 | 32) && (1..=8).contains(&c.channels) && n > 0 && n % ch == 0 && n / ch <= 65535;
        let clearly_illegal = c.rate >= (1 << 20) || c.bps == 0 || c.bps > 32 || c.channels == 0 || c.channels > 8 || (ch > 0 && n % ch != 0) || (ch > 0 && n / ch > 65535);
        out.nontrivial = true;
        match r {
            Err(p) => out.fails.push(Fail::panic("stream-write-panic", &p)),
            Ok(Ok(())) => {
                if clearly_illegal {
                    out.fail("illegal-stream-parameters-accepted", format!("{c:?}"));
                }
                out.label("accepted");
            }
            Ok(Err(e)) => {
                if legal {
                    out.fail(format!("legal-stream-parameters-refused:{}", strip_digits(&e)), format!("{c:?}: {e}"));
                }
                out.label("refused");
            }
        }
        out
    }
}

pub fn rate_b() -> BoxedStrategy<u32> {
    prop_oneof![3 => proptest::sample::select(&[0u32, 1, 44100, (1 << 20) - 1, 1 << 20, u32::MAX, 8000, 655350][..]), 1 => 0u32..(1 << 20)].boxed()
}
pub fn bps_b() -> BoxedStrategy<u32> {
    prop_oneof![3 => proptest::sample::select(&[0u32, 1, 2, 3, 4, 8, 16, 24, 31, 32, 33, u32::MAX][..]), 1 => 1u32..=32].boxed()
}
pub fn ch_b() -> BoxedStrategy<u8> {
    proptest::sample::select(&[0u8, 1, 2, 3, 8, 9, 255][..]).boxed()
}

pub fn param_strategy() -> BoxedStrategy<ParamCase> {
    let total = prop_oneof![
        3 => Just(TotalSel::None),
        4 => Just(TotalSel::Exact),
        1 => proptest::sample::select(&[0u64, 1, 2, 3, 7, (1 << 36) - 1, 1 << 36, u64::MAX, 1 << 40][..]).prop_map(TotalSel::Raw),
        1 => (1u64..5000).prop_map(TotalSel::Raw),
    ];
    let fill = prop_oneof![4 => Just(Fill::All), 2 => (1u16..40).prop_map(Fill::Under), 2 => (1u16..40).prop_map(Fill::Over), 1 => Just(Fill::Over(300))];
    (
        (
            prop_oneof![4 => Just(44100u32), 3 => rate_b()],
            prop_oneof![4 => Just(16u32), 3 => bps_b()],
            prop_oneof![4 => Just(2u8), 3 => ch_b()],
            total,
            prop_oneof![3 => proptest::sample::select(&[0u16, 1, 15, 16, 17, 32, 4096, 65535][..]), 2 => 16u16..300],
        ),
        (
            prop_oneof![2 => Just(Some(8u8)), 3 => proptest::sample::select(&[None, Some(0u8), Some(1), Some(32), Some(33), Some(255)][..])],
            prop_oneof![2 => Just(5u32), 3 => 0u32..=17],
            prop_oneof![3 => Just(None), 2 => proptest::sample::select(&[Some(0u32), Some(1), Some(4096), Some((1 << 24) - 1), Some(1 << 24), Some(u32::MAX)][..])],
            crate::opts::window_strategy(),
            crate::opts::seek_strategy(),
            super::c01::front_strategy(),
            prop_oneof![3 => 1u16..100, 1 => 100u16..700],
            fill,
            prop_oneof![Just(1u16), 1u16..64, Just(5000u16)],
        ),
    )
        .prop_map(|((rate, bps, channels, total, block_size), (max_lpc, max_part, padding, window, seek, front, frames, fill, chunk))| ParamCase {
            rate,
            bps,
            channels,
            total,
            block_size,
            max_lpc,
            max_part,
            padding,
            window,
            seek,
            front,
            frames,
            fill,
            chunk,
        })
        .boxed()
}

pub const RULE: &str = "grid + random combinations of constructor arguments and option values: sample rate {0, 1, 2^20-1, 2^20, u32::MAX, ..}, \
depth {0, 1, 2, 3, 4, 8, 31, 32, 33, u32::MAX}, channels {0, 1, 2, 3, 8, 9, 255}, total {none, exact, 0, 1, 2, 3, 7, 2^36-1, 2^36, u64::MAX, \
..} in each writer's unit, block size {0, 1, 15, 16, 17, 65535, ..}, LPC {none, 0, 1, 32, 33, 255}, partition order 0..=17, padding {0, \
2^24-1, 2^24, ..}, all windows and seek policies, three writers; then a test signal is written in chunks totalling exactly / fewer / \
more PCM frames than declared. Oracle: every setter and constructor returns Ok exactly for documented values and never unwinds; legal \
combinations produce a file that round-trips with the right STREAMINFO; over-filling is reported by some call, under-filling by \
finalize, an undeclared total is recorded. FlacStreamWriter::write arguments are swept the same way. Non-trivial = a parameter at a \
documented boundary.";

pub fn run(ctx: &Ctx) {
    ctx.set_rule(RULE);
    ctx.assume("Some(0) as a declared total is not given an expected outcome (the three writers document nothing and differ)");
    let t = ctx.tier;
    let checked = crate::engine::profile() == "checked";
    ctx.regress(&Params);
    ctx.regress(&StreamParams);
    let n = match (t, checked) {
        (Tier::Quick, false) => 120_000,
        (Tier::Quick, true) => 40_000,
        (Tier::Thorough, false) => 4_000_000,
        (Tier::Thorough, true) => 1_000_000,
    };
    ctx.search(&Params, n, param_strategy);
    ctx.search(&StreamParams, n / 4, || {
        (rate_b(), bps_b(), ch_b(), prop_oneof![Just(0u32), 1u32..64, 1u32..2000, Just(65535u32), Just(65536u32), Just(131070u32), Just(131072u32)])
            .prop_map(|(rate, bps, channels, samples)| StreamParamCase { rate, bps, channels, samples })
            .boxed()
    });
}

pub fn engines() -> Vec<Box<dyn crate::engine::DynEngine>> {
    vec![Box::new(Params), Box::new(StreamParams)]
}
