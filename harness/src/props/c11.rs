//! C11 — metadata blocks survive a write/read round trip and report their sizes correctly.

use super::c01::strip_digits;
use crate::engine::{Ctx, Engine, Fail, Outcome, Tier};
use crate::metagen::{self, VBlock, VSpec, build_block, expect_rblock, reported_sizes};
use crate::refmeta::{self, RBlock};
use crate::util::guarded;
use flac_codec::metadata::{Block, BlockList, read_blocks, write_blocks};
use proptest::prelude::*;
use serde::{Deserialize, Serialize};
use std::io::Cursor;

fn label_blocks(blocks: &[Block], out: &mut Outcome) {
    for b in blocks {
        out.label(match b {
            Block::Streaminfo(_) => "streaminfo",
            Block::Padding(_) => "padding",
            Block::Application(_) => "application",
            Block::SeekTable(_) => "seektable",
            Block::VorbisComment(_) => "vorbis-comment",
            Block::Cuesheet(c) => {
                if c.is_cdda() {
                    "cuesheet-cdda"
                } else {
                    "cuesheet-non-cdda"
                }
            }
            Block::Picture(_) => "picture",
        });
        if let Block::Cuesheet(c) = b {
            if c.track_count() >= 50 {
                out.label("cuesheet>=50-tracks");
                out.nontrivial = true;
            }
            if c.tracks().any(|t| t.index_points.len() >= 100) {
                out.label("track>=100-indices");
                out.nontrivial = true;
            }
        }
        if reported_sizes(b).0.map(|n| n > 65536).unwrap_or(false) {
            out.label("block>64KiB");
            out.nontrivial = true;
        }
    }
}

/// write -> (crate read == value) & (independent parse == expected layout) & sizes
pub fn roundtrip_blocks(blocks: &[Block], out: &mut Outcome, what: &str) {
    let mut bytes: Vec<u8> = vec![];
    match guarded(|| write_blocks(&mut bytes, blocks.iter())) {
        Err(p) => {
            out.fails.push(Fail::panic(&format!("{what}:write-panic"), &p));
            return;
        }
        Ok(Err(e)) => {
            // the statement is about values the writer accepts; a refusal is only recorded
            out.label("writer-refused");
            let _ = e;
            return;
        }
        Ok(Ok(())) => {}
    }
    // write_blocks takes any iterator: one without an exact size hint (a filter, a generator
    // closure) must produce the same bytes
    if blocks.len() < 64 {
        let mut k = 0usize;
        let generator = std::iter::from_fn(|| {
            let b = blocks.get(k);
            k += 1;
            b
        });
        for (name, res) in [
            ("filter", guarded(|| {
                let mut v = vec![];
                write_blocks(&mut v, blocks.iter().filter(|_| true)).map(|()| v)
            })),
            ("from_fn", guarded(|| {
                let mut v = vec![];
                write_blocks(&mut v, generator).map(|()| v)
            })),
        ] {
            match res {
                Err(p) => out.fails.push(Fail::panic(&format!("{what}:write-panic"), &p)),
                Ok(Err(e)) => out.fail(format!("{what}:iterator-kind-changes-result:{name}"), format!("write_blocks over a {name} iterator fails ({e}) although the slice iterator succeeds")),
                Ok(Ok(v)) => {
                    if v != bytes {
                        let at = v.iter().zip(&bytes).position(|(a, b)| a != b);
                        out.fail(format!("{what}:iterator-kind-changes-result:{name}"), format!("write_blocks over a {name} iterator writes different bytes (first difference at {at:?}, {} vs {} bytes)", v.len(), bytes.len()));
                    }
                }
            }
        }
    }
    // the reader must accept the writer's output and give back equal values
    match guarded(|| read_blocks(Cursor::new(&bytes)).collect::<Result<Vec<Block>, _>>()) {
        Err(p) => out.fails.push(Fail::panic(&format!("{what}:read-panic"), &p)),
        Ok(Err(e)) => out.fail(format!("{what}:reader-rejects-writer-output:{}", strip_digits(&e.to_string())), e.to_string()),
        Ok(Ok(got)) => {
            if got != blocks {
                let i = got.iter().zip(blocks).position(|(a, b)| a != b);
                out.fail(
                    format!("{what}:value-changed-in-roundtrip:{}", i.map(|i| format!("{:?}", blocks[i].block_type())).unwrap_or("count".into())),
                    format!("block {:?} reads back different ({} blocks written, {} read)", i, blocks.len(), got.len()),
                );
            }
        }
    }
    // differential against the RFC layout
    match refmeta::parse(&bytes) {
        Err(e) => out.fail(format!("{what}:independent-parser-rejects:{}", strip_digits(&e)), e),
        Ok((rb, end)) => {
            if end != bytes.len() {
                out.fail(format!("{what}:bytes-after-last-block"), format!("{} bytes follow the block flagged last", bytes.len() - end));
            }
            let want: Vec<RBlock> = blocks.iter().map(expect_rblock).collect();
            if rb.len() != want.len() {
                out.fail(format!("{what}:layout-block-count"), format!("{} blocks on the wire, {} values", rb.len(), want.len()));
            } else {
                for (i, (a, b)) in rb.iter().zip(&want).enumerate() {
                    if a != b {
                        out.fail(
                            format!("{what}:wire-layout-differs:type{}", b.type_code()),
                            format!("block {i} (type {}) is not laid out as RFC 9639 defines for this value", b.type_code()),
                        );
                    }
                }
                // sizes
                let mut total = 4usize;
                for (b, r) in blocks.iter().zip(&rb) {
                    let payload = r.payload().len();
                    total += 4 + payload;
                    let (bytes_rep, total_rep) = reported_sizes(b);
                    if bytes_rep != Some(payload as u32) {
                        out.fail(format!("{what}:bytes()-wrong:type{}", r.type_code()), format!("bytes() = {bytes_rep:?}, {payload} bytes were written"));
                    }
                    if total_rep.is_none() && payload + 4 > (1 << 24) - 1 {
                        // the 24-bit size type cannot hold payload + header: "no answer", not a wrong one
                        out.label("total_size-unrepresentable");
                    } else if total_rep != Some(payload as u32 + 4) {
                        out.fail(format!("{what}:total_size()-wrong:type{}", r.type_code()), format!("total_size() = {total_rep:?}, {} bytes were written", payload + 4));
                    }
                }
                if total != bytes.len() {
                    out.fail(format!("{what}:size-sum"), format!("blocks account for {total} bytes, {} were written", bytes.len()));
                }
            }
        }
    }
}

pub struct ValueRoundtrip;

impl Engine for ValueRoundtrip {
    type Case = VSpec;
    fn name(&self) -> &'static str {
        "value-roundtrip"
    }
    fn check(&self, c: &VSpec) -> Outcome {
        let mut out = Outcome::new();
        let Some(si) = c.si.build() else {
            out.label("unbuildable-streaminfo");
            return out;
        };
        let mut blocks: Vec<Block> = vec![si.into()];
        for v in &c.blocks {
            match guarded(|| build_block(v)) {
                Err(p) => {
                    out.fails.push(Fail::panic("constructor-panic", &p));
                    return out;
                }
                Ok(Err(e)) => {
                    // a generated cue text the importer refuses is C20's business, not a value
                    out.label("value-not-constructible");
                    let _ = e;
                }
                Ok(Ok(b)) => blocks.push(b),
            }
        }
        label_blocks(&blocks, &mut out);
        if c.si.bps == 1 || c.si.bps == 32 || c.si.rate == 0 || c.si.rate == (1 << 20) - 1 || c.si.total == (1 << 36) - 1 || c.si.min_fs == (1 << 24) - 1 || c.si.max_fs == (1 << 24) - 1 {
            out.label("streaminfo-field-at-limit");
            out.nontrivial = true;
        }
        if !c.si.in_range() {
            // out-of-range STREAMINFO: the writer must refuse, not panic
            let mut bytes = vec![];
            match guarded(|| write_blocks(&mut bytes, blocks.iter())) {
                Err(p) => out.fails.push(Fail::panic("write-panic", &p)),
                Ok(Ok(())) => out.fail("out-of-range-streaminfo-accepted", format!("{:?}", c.si)),
                Ok(Err(_)) => out.label("out-of-range-refused"),
            }
            return out;
        }
        // blocks over the 24-bit limit must be refused; everything else must round-trip
        let oversize = blocks.iter().any(|b| expect_rblock(b).payload().len() > (1 << 24) - 1);
        if oversize {
            let mut bytes = vec![];
            match guarded(|| write_blocks(&mut bytes, blocks.iter())) {
                Err(p) => out.fails.push(Fail::panic("write-panic", &p)),
                Ok(Ok(())) => out.fail("oversize-block-accepted", "a block larger than 2^24-1 bytes was written"),
                Ok(Err(_)) => out.label("oversize-refused"),
            }
            return out;
        }
        roundtrip_blocks(&blocks, &mut out, "value");
        out
    }
    fn sample(&self, c: &VSpec) -> serde_json::Value {
        serde_json::json!({"si": c.si, "blocks": c.blocks.iter().map(|b| match b {
            VBlock::CueCd(s) => format!("CueCd({} tracks)", s.tracks.len()),
            VBlock::CueNonCd(s) => format!("CueNonCd({} tracks)", s.tracks.len()),
            o => format!("{o:?}").chars().take(120).collect(),
        }).collect::<Vec<_>>()})
    }
}

#[derive(Serialize, Deserialize, Clone, Debug, Hash, PartialEq, Eq)]
pub struct BytesCase {
    pub blocks: Vec<RBlock>,
}

pub struct BytesRoundtrip;

impl Engine for BytesRoundtrip {
    type Case = BytesCase;
    fn name(&self) -> &'static str {
        "accepted-bytes-roundtrip"
    }
    fn check(&self, c: &BytesCase) -> Outcome {
        let mut out = Outcome::new();
        let bytes = refmeta::serialize(&c.blocks);
        match guarded(|| BlockList::read(Cursor::new(&bytes))) {
            Err(p) => out.fails.push(Fail::panic("read-panic", &p)),
            Ok(Err(_)) => out.label("reader-refused"),
            Ok(Ok(list)) => {
                out.label("reader-accepted");
                out.nontrivial = true;
                let blocks: Vec<Block> = list.clone().into_iter().collect();
                label_blocks(&blocks, &mut out);
                // what the reader accepted must be writable and read back equal
                let mut again: Vec<u8> = vec![];
                match guarded(|| write_blocks(&mut again, list.blocks())) {
                    Err(p) => out.fails.push(Fail::panic("rewrite-panic", &p)),
                    Ok(Err(e)) => out.fail(format!("accepted-bytes-cannot-be-written:{}", strip_digits(&e.to_string())), e.to_string()),
                    Ok(Ok(())) => match guarded(|| read_blocks(Cursor::new(&again)).collect::<Result<Vec<Block>, _>>()) {
                        Err(p) => out.fails.push(Fail::panic("reread-panic", &p)),
                        Ok(Err(e)) => out.fail(format!("rewritten-bytes-rejected:{}", strip_digits(&e.to_string())), e.to_string()),
                        Ok(Ok(got)) => {
                            if got != blocks {
                                out.fail("rewritten-bytes-read-back-different", "re-read block list differs");
                            }
                        }
                    },
                }
                // the values must say what the bytes say (reserved bits aside)
                let want: Vec<RBlock> = blocks.iter().map(expect_rblock).collect();
                if want.len() == c.blocks.len() {
                    for (w, orig) in want.iter().zip(&c.blocks) {
                        if normalise(orig) != normalise(w) {
                            out.fail(format!("parsed-value-differs-from-bytes:type{}", orig.type_code()), format!("{:?} vs {:?}", short(orig), short(w)));
                        }
                    }
                } else {
                    out.fail("parsed-block-count", format!("{} blocks parsed from {} on the wire", want.len(), c.blocks.len()));
                }
            }
        }
        out
    }
    fn sample(&self, c: &BytesCase) -> serde_json::Value {
        serde_json::json!({"blocks": c.blocks.iter().map(short).collect::<Vec<_>>()})
    }
}

fn short(b: &RBlock) -> String {
    format!("{b:?}").chars().take(160).collect()
}

/// strips what the crate's value types deliberately do not keep (reserved bits, padding fill,
/// placeholder garbage, trailing NULs of the catalog)
fn normalise(b: &RBlock) -> RBlock {
    match b.clone() {
        RBlock::Padding { len, .. } => RBlock::Padding { len, fill: 0 },
        RBlock::SeekTable { points } => RBlock::SeekTable { points: points.into_iter().map(|p| if p.0 == u64::MAX { (u64::MAX, 0, 0) } else { p }).collect() },
        RBlock::Cuesheet { catalog, lead_in, is_cd, tracks, .. } => {
            let mut c = catalog.clone();
            c.resize(128, 0);
            RBlock::Cuesheet {
                catalog: c,
                lead_in: if is_cd { lead_in } else { 0 },
                is_cd,
                reserved: vec![0; 259],
                tracks: tracks
                    .into_iter()
                    .map(|mut t| {
                        t.reserved = vec![0; 14];
                        for i in t.indices.iter_mut() {
                            i.reserved = [0; 3];
                        }
                        t
                    })
                    .collect(),
            }
        }
        o => o,
    }
}

#[derive(Serialize, Deserialize, Clone, Debug, Hash, PartialEq, Eq)]
pub struct IllegalCase {
    pub kind: u8,
    pub spec: VSpec,
}

pub struct IllegalLists;

impl Engine for IllegalLists {
    type Case = IllegalCase;
    fn name(&self) -> &'static str {
        "illegal-lists"
    }
    fn check(&self, c: &IllegalCase) -> Outcome {
        let mut out = Outcome::new();
        let Some(si) = c.spec.si.build() else { return out };
        if !c.spec.si.in_range() {
            return out;
        }
        let mut blocks: Vec<Block> = vec![si.clone().into()];
        for v in &c.spec.blocks {
            if let Ok(Ok(b)) = guarded(|| build_block(v)) {
                blocks.push(b);
            }
        }
        let vorbis = |s: &str| -> Block { flac_codec::metadata::VorbisComment { vendor_string: s.into(), fields: vec![] }.into() };
        let pic = |t: u8| -> Block { build_block(&VBlock::Picture { ptype: t, mime: "image/png".into(), desc: String::new(), dims: [32, 32, 24, 0], len: 3 }).unwrap() };
        let seek = || -> Block { build_block(&VBlock::Seek { points: vec![(0, 0, 16)], placeholders: 1 }).unwrap() };
        let class = match c.kind % 9 {
            0 => {
                blocks.remove(0);
                "streaminfo-missing"
            }
            1 => {
                if blocks.len() < 2 {
                    blocks.push(vorbis("x"));
                }
                blocks.swap(0, 1);
                "streaminfo-not-first"
            }
            2 => {
                blocks.push(si.into());
                "two-streaminfo"
            }
            3 => {
                blocks.retain(|b| !matches!(b, Block::VorbisComment(_)));
                blocks.push(vorbis("a"));
                blocks.push(vorbis("b"));
                "two-vorbis-comments"
            }
            4 => {
                blocks.retain(|b| !matches!(b, Block::SeekTable(_)));
                blocks.push(seek());
                blocks.push(seek());
                "two-seektables"
            }
            5 => {
                blocks.push(pic(1));
                blocks.push(pic(1));
                "two-png-icons"
            }
            6 => {
                blocks.push(pic(2));
                blocks.push(pic(2));
                "two-general-icons"
            }
            7 => {
                blocks.push(build_block(&VBlock::App { id: 7, len: 1 << 24 }).unwrap());
                "oversize-application"
            }
            _ => {
                blocks.push(build_block(&VBlock::Picture { ptype: 3, mime: String::new(), desc: String::new(), dims: [0; 4], len: (1 << 24) - 20 }).unwrap());
                "oversize-picture"
            }
        };
        out.label(class);
        out.nontrivial = true;
        let mut bytes = vec![];
        match guarded(|| write_blocks(&mut bytes, blocks.iter())) {
            Err(p) => out.fails.push(Fail::panic("illegal-list-panic", &p)),
            Ok(Ok(())) => out.fail(format!("illegal-list-accepted:{class}"), format!("write_blocks accepted a list with {class}")),
            Ok(Err(_)) => {}
        }
        out
    }
}

pub const RULE: &str = "(a) value level: block lists built through the public constructors and struct literals - STREAMINFO at its field \
limits (1 and 32 bits, rate 0 and 2^20-1, total 2^36-1, frame sizes 2^24-1), comments with arbitrary UTF-8, pictures, application data, \
seek tables with placeholders, CD-DA cue sheets to 99 tracks x 99 indices and non-CD-DA ones to 254 tracks x 255 indices imported from \
generated text - are written; the crate's reader must give back equal values, the independent parser must find exactly the RFC 9639 \
layout of those values, and bytes()/total_size() must equal the bytes emitted. (b) byte level: independently serialised blocks with legal \
contents (non-zero reserved bits, garbage in placeholders, 256-index tracks) that the reader accepts must be writable again and re-read \
equal. (c) lists breaking single-instance/ordering/size rules must be refused with an error. Non-trivial = a field at a width limit, a \
block > 64 KiB, a cue sheet with >= 50 tracks or a track with >= 100 indices, an accepted byte-level list, or an illegal list.";

pub fn run(ctx: &Ctx) {
    ctx.set_rule(RULE);
    ctx.assume("md5: Some([0;16]) is excluded from the value domain (the format cannot tell it from 'absent')");
    let t = ctx.tier;
    let checked = crate::engine::profile() == "checked";
    ctx.regress(&ValueRoundtrip);
    ctx.regress(&BytesRoundtrip);
    ctx.regress(&IllegalLists);
    let n = match (t, checked) {
        (Tier::Quick, false) => 100_000,
        (Tier::Quick, true) => 40_000,
        (Tier::Thorough, false) => 3_000_000,
        (Tier::Thorough, true) => 1_000_000,
    };
    ctx.search(&ValueRoundtrip, n, || {
        (metagen::vspec_strategy(), prop_oneof![12 => Just(false), 1 => Just(true)], metagen::si_strategy(true))
            .prop_map(|(mut v, ill, si)| {
                if ill {
                    v.si = si;
                }
                v
            })
            .boxed()
    });
    ctx.search(&BytesRoundtrip, n, || metagen::rlist_strategy().prop_map(|blocks| BytesCase { blocks }).boxed());
    // the 24-bit size limit, from the byte side: padding blocks whose body is exactly at / just
    // below 2^24 - 1 bytes are accepted by the reader and must be writable again
    let si = RBlock::Streaminfo { min_bs: 4096, max_bs: 4096, min_fs: 0, max_fs: 0, rate: 44100, channels: 2, bps: 16, total: 0, md5: [0; 16] };
    let mut limit_cases = vec![];
    for k in [0u32, 1, 2, 3, 4, 7, 8, 9] {
        let pad = RBlock::Padding { len: (1 << 24) - 1 - k, fill: 0 };
        limit_cases.push(BytesCase { blocks: vec![si.clone(), pad.clone()] });
        limit_cases.push(BytesCase { blocks: vec![si.clone(), pad.clone(), RBlock::Application { id: 0x41424344, data: vec![1, 2, 3] }] });
        limit_cases.push(BytesCase { blocks: vec![si.clone(), RBlock::Application { id: 0x41424344, data: vec![] }, pad] });
    }
    ctx.run_cases(&BytesRoundtrip, &limit_cases);
    let n = match (t, checked) {
        (Tier::Quick, _) => 1_500,
        (Tier::Thorough, _) => 30_000,
    };
    ctx.search(&IllegalLists, n, || (0u8..9, metagen::vspec_strategy()).prop_map(|(kind, spec)| IllegalCase { kind, spec }).boxed());
}

pub fn engines() -> Vec<Box<dyn crate::engine::DynEngine>> {
    vec![Box::new(ValueRoundtrip), Box::new(BytesRoundtrip), Box::new(IllegalLists)]
}
