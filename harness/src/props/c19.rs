//! C19 — encoding never expands audio beyond verbatim size plus a fixed frame overhead.

use super::c01::{EncCase, Roundtrip, enc_case_strategy, label_case, strip_digits};
use crate::codec::{self, EncErr, FRONTS, Front};
use crate::engine::{Ctx, Engine, Fail, Outcome, Tier};
use crate::opts::{self, EncOpts};
use crate::pcm::{self, ChanRecipe, Kind, Recipe};
use crate::refdec::{self, Cfg};
use crate::util::guarded;
use proptest::prelude::*;

pub const FRAME_ALLOWANCE: usize = 64;
pub const CONSTANT_PER_CHANNEL: usize = 96;

pub struct Expansion {
    pub name: &'static str,
}

impl Engine for Expansion {
    type Case = EncCase;
    fn name(&self) -> &'static str {
        self.name
    }
    fn check(&self, c: &EncCase) -> Outcome {
        let mut out = Outcome::new();
        let pcm = c.recipe.expand();
        label_case(&pcm, c, &mut out);
        let bytes = match guarded(|| codec::encode_vec(&pcm, &c.opts, c.front, &c.chunks)) {
            Err(p) => {
                out.fails.push(Fail::panic("encode-panic", &p));
                return out;
            }
            Ok(Err(EncErr::Options(_))) => {
                out.label("options-refused");
                return out;
            }
            Ok(Err(e)) => {
                out.fail(format!("encode-error:{}:{}", e.stage(), strip_digits(e.text())), format!("{e:?}"));
                return out;
            }
            Ok(Ok(b)) => b,
        };
        let d = match refdec::decode_file(&bytes, &Cfg::LENIENT) {
            Ok(d) => d,
            Err(e) => {
                out.fail(format!("undecodable:{}", strip_digits(&e)), e);
                return out;
            }
        };
        let ch = pcm.channels as usize;
        let bps = pcm.bps as usize;
        let mut worst = 0f64;
        for f in &d.frames {
            let n = f.bs as usize;
            let verbatim_bits = n * bps * ch + if ch == 2 { n } else { 0 };
            let bound = FRAME_ALLOWANCE + verbatim_bits.div_ceil(8);
            let ratio = f.len as f64 / bound as f64;
            if ratio > worst {
                worst = ratio;
            }
            if f.len > bound {
                out.fail(
                    "frame-larger-than-verbatim",
                    format!("frame at sample {} ({} samples x {ch} ch x {bps} bits) takes {} bytes, verbatim bound is {bound}", f.first_sample, n, f.len),
                );
            }
            if f.subframes.iter().any(|s| s.kind == "VERBATIM") {
                out.label("verbatim-subframe");
                out.nontrivial = true;
            }
            // constant block?
            let s0 = f.first_sample as usize;
            let constant = pcm.data.iter().all(|c| c[s0..s0 + n].iter().all(|v| *v == c[s0]));
            if constant {
                out.label("constant-block");
                if n >= 4096 {
                    out.label("constant-block>=4096");
                    out.nontrivial = true;
                }
                let cb = FRAME_ALLOWANCE + CONSTANT_PER_CHANNEL * ch;
                if f.len > cb {
                    out.fail("constant-block-too-large", format!("a constant block of {n} samples x {ch} ch takes {} bytes (> {cb})", f.len));
                }
            }
        }
        if worst > 0.98 {
            out.label("frame-within-2%-of-bound");
        }
        out.evals = d.frames.len().max(1) as u64;
        out
    }
    fn sample(&self, c: &EncCase) -> serde_json::Value {
        Roundtrip { name: "x", readers: &[] }.sample(c)
    }
}

/// The same bounds for frames written one at a time by FlacStreamWriter, whose parameters may change
/// from frame to frame (state cached per channel must not leak from one frame into the next).
pub struct StreamExpansion;

impl Engine for StreamExpansion {
    type Case = super::c02::StreamCase;
    fn name(&self) -> &'static str {
        "expansion-stream-writer"
    }
    fn check(&self, c: &super::c02::StreamCase) -> Outcome {
        let mut out = Outcome::new();
        let (bytes, spans, pcms) = match guarded(|| super::c02::write_stream(c)) {
            Err(p) => {
                out.fails.push(Fail::panic("stream-write-panic", &p));
                return out;
            }
            Ok(Err(e)) => {
                // conformance of the raw stream is C02 / C16's business
                let _ = e;
                out.label("stream-write-failed");
                return out;
            }
            Ok(Ok(x)) => x,
        };
        let _ = bytes;
        let mut prev: Option<(u8, u32)> = None;
        for ((_, len), pcm) in spans.iter().zip(&pcms) {
            let (ch, bps, n) = (pcm.channels as usize, pcm.bps as usize, pcm.frames());
            let verbatim_bits = n * bps * ch + if ch == 2 { n } else { 0 };
            let bound = FRAME_ALLOWANCE + verbatim_bits.div_ceil(8);
            if *len > bound {
                out.fail("frame-larger-than-verbatim", format!("stream-writer frame of {n} samples x {ch} ch x {bps} bits takes {len} bytes, verbatim bound is {bound}"));
            }
            let constant = pcm.data.iter().all(|c| c.iter().all(|v| *v == c[0]));
            if constant && *len > FRAME_ALLOWANCE + CONSTANT_PER_CHANNEL * ch {
                out.fail("constant-block-too-large", format!("a constant stream-writer frame of {n} samples x {ch} ch takes {len} bytes"));
            }
            if let Some((pb, pn)) = prev {
                if pb as usize > bps && pn as usize == n {
                    out.label("same-length-lower-depth-than-previous-frame");
                    out.nontrivial = true;
                }
            }
            prev = Some((pcm.bps, n as u32));
        }
        out.evals = spans.len().max(1) as u64;
        out
    }
    fn sample(&self, c: &super::c02::StreamCase) -> serde_json::Value {
        serde_json::json!({"frames": c.frames.iter().map(|f| format!("{}Hz {}ch {}bit x{}", f.recipe.rate, f.recipe.chans.len(), f.recipe.bps, f.recipe.frames)).collect::<Vec<_>>()})
    }
}

/// frames of equal length with incompressible content and changing depth / channel count
pub fn stream_expansion_strategy() -> BoxedStrategy<super::c02::StreamCase> {
    use crate::pcm::{ChanRecipe, Kind};
    (
        proptest::sample::select(&[16u32, 64, 192, 576, 1000, 4096][..]),
        proptest::collection::vec((proptest::sample::select(&super::c02::SUBSET_BPS[..]), 1u8..=3, any::<u64>(), 0u8..4), 2..=5),
        opts::opts_strategy(Just(4096u16).boxed()),
    )
        .prop_map(|(n, frames, opts)| super::c02::StreamCase {
            frames: frames
                .into_iter()
                .map(|(bps, ch, seed, k)| super::c02::FrameSpec {
                    recipe: Recipe {
                        bps,
                        rate: 44100,
                        frames: n,
                        seed,
                        chans: (0..ch)
                            .map(|_| ChanRecipe {
                                kind: match k {
                                    0 | 1 => Kind::Noise { amp: bps - 1 },
                                    2 => Kind::Square { run: 1 },
                                    _ => Kind::RiceHostile { small: 1, outlier_every: 3 },
                                },
                                wasted: 0,
                                relation: 0,
                            })
                            .collect(),
                        seg: 0,
                        ms_mix: 0,
                    },
                })
                .collect(),
            opts,
        })
        .boxed()
}

/// adversarial signals per predictor
pub fn hostile_recipe_strategy(frames: BoxedStrategy<u32>) -> BoxedStrategy<Recipe> {
    (pcm::bps_strategy(), pcm::channels_strategy(), pcm::rate_strategy(), frames, any::<u64>())
        .prop_flat_map(|(bps, nch, rate, frames, seed)| {
            let full = bps - 1;
            let kind = prop_oneof![
                4 => Just(Kind::Noise { amp: full }),
                2 => (1u16..5).prop_map(|run| Kind::Square { run }),
                2 => (0u8..4, 2u16..40).prop_map(|(small, outlier_every)| Kind::RiceHostile { small, outlier_every }),
                1 => (1u8..8).prop_map(|steps| Kind::Steps { steps }),
                1 => (1u8..6).prop_map(|count| Kind::Impulses { count }),
                1 => Just(Kind::Noise { amp: full.saturating_sub(1) }),
                2 => (0u8..4).prop_map(|which| Kind::Const { which }),
            ];
            proptest::collection::vec((kind, prop_oneof![4 => Just(0u8), 1 => 0u8..3], prop_oneof![6 => Just(0u8), 1 => 1u8..4]), nch as usize..=nch as usize).prop_map(
                move |v| Recipe {
                    bps,
                    rate,
                    frames,
                    seed,
                    chans: v.into_iter().map(|(kind, wasted, relation)| ChanRecipe { kind, wasted, relation }).collect(),
                    seg: 0, ms_mix: 0,
                },
            )
        })
        .boxed()
}

pub fn hostile_case_strategy(large: bool) -> BoxedStrategy<EncCase> {
    let block = if large { opts::any_block_strategy() } else { opts::small_block_strategy() };
    opts::opts_strategy(block)
        .prop_flat_map(move |o| {
            let mb = if o.block_size > 5000 { 1 } else { 3 };
            let frames = opts::frames_strategy(o.block_size, mb);
            (hostile_recipe_strategy(frames), proptest::sample::select(&FRONTS[..])).prop_map(move |(recipe, front)| EncCase { recipe, opts: o.clone(), front, chunks: vec![] })
        })
        .boxed()
}

pub fn constant_case(i: u64) -> EncCase {
    let lens = [16u32, 17, 100, 4096, 4608, 16384, 65535];
    let len = lens[(i % 7) as usize];
    let ch = 1 + ((i / 7) % 8) as u8;
    let which = ((i / 56) % 4) as u8;
    let bps = [8u8, 16, 24, 32, 12, 1, 20][((i / 224) % 7) as usize];
    let mut o = EncOpts::small(len.clamp(16, 65535) as u16);
    o.max_lpc = [None, Some(8), Some(32)][((i / 1568) % 3) as usize];
    o.max_part = [0, 5, 15][((i / 4704) % 3) as usize];
    EncCase {
        recipe: Recipe {
            bps,
            rate: 44100,
            frames: len,
            seed: i,
            chans: (0..ch).map(|c| ChanRecipe { kind: Kind::Const { which: (which + c) % 4 }, wasted: 0, relation: 0 }).collect(),
            seg: 0, ms_mix: 0,
        },
        opts: o,
        front: Front::Samples,
        chunks: vec![],
    }
}

pub const RULE: &str = "inputs adversarial for each predictor - full-scale white noise, alternating extremes, Rice-hostile blocks (tiny \
residuals with rare huge outliers, level changes per partition), steps, impulses at the rails, 32-bit extremes - crossed with all option \
sets and block sizes up to 65535, plus the general C01 generator and a grid of constant blocks (every constant class, 1-8 channels, \
lengths 16..65535, depths incl. 1 and 32 bits). Oracle, per frame from the independent frame map: bytes <= 64 + ceil(n x channels x bps \
[+ n for a stereo pair] / 8); a block in which every channel is constant takes <= 64 + 96 x channels bytes. Non-trivial = a frame in \
which a subframe fell back to VERBATIM, or a constant block of >= 4096 samples. Distinct = digest of the case.";

pub fn run(ctx: &Ctx) {
    ctx.set_rule(RULE);
    ctx.assume("the 64-byte allowance covers the <=16-byte header, CRC-16, byte alignment and <= 5 bytes of subframe header / wasted-bit unary per channel");
    let t = ctx.tier;
    let eng = Expansion { name: "expansion-hostile" };
    ctx.regress_named(&eng, &["expansion-hostile-large"]);
    let n = match t {
        Tier::Quick => 30_000,
        Tier::Thorough => 1_200_000,
    };
    ctx.search(&eng, n, || hostile_case_strategy(false));
    let large = Expansion { name: "expansion-hostile-large" };
    let n = match t {
        Tier::Quick => 1_500,
        Tier::Thorough => 60_000,
    };
    ctx.search(&large, n, || hostile_case_strategy(true));
    let general = Expansion { name: "expansion-general" };
    let n = match t {
        Tier::Quick => 15_000,
        Tier::Thorough => 600_000,
    };
    ctx.search(&general, n, || prop_oneof![6 => enc_case_strategy(false, 4), 1 => super::c01::tonal_case_strategy()].boxed());
    let n = match t {
        Tier::Quick => 6_000,
        Tier::Thorough => 200_000,
    };
    ctx.search(&StreamExpansion, n, || prop_oneof![2 => stream_expansion_strategy(), 1 => super::c02::stream_case_strategy(5, 300)].boxed());
    let constant = Expansion { name: "constant-grid" };
    let total = 7 * 8 * 4 * 7 * 3 * 3;
    ctx.enumerate(&constant, total, |i| Some(constant_case(i)));
    ctx.set_exhaustive("constant-grid", true, "lengths {16,17,100,4096,4608,16384,65535} x 1-8 channels x 4 constant classes x 7 depths x LPC {none,8,32} x partition order {0,5,15}");
}

pub fn engines() -> Vec<Box<dyn crate::engine::DynEngine>> {
    vec![
        Box::new(Expansion { name: "expansion-hostile" }),
        Box::new(Expansion { name: "expansion-hostile-large" }),
        Box::new(Expansion { name: "expansion-general" }),
        Box::new(Expansion { name: "constant-grid" }),
        Box::new(StreamExpansion),
    ]
}
