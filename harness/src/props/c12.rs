//! C12 — metadata and auxiliary parsers are total on arbitrary input.

use crate::cuegen::{self, CueSpec};
use crate::engine::{Ctx, Engine, Fail, Outcome, Tier};
use crate::iow::SegReader;
use crate::metagen;
use crate::refmeta::{self, RBlock};
use crate::util::{guarded, hexbytes, measure_alloc};
use flac_codec::decode::Metadata;
use flac_codec::metadata::{
    Application, Block, BlockList, Cuesheet, Padding, Picture, PictureType, SeekTable, Streaminfo, VorbisComment, read_block, read_blocks, read_info, write_blocks,
};
use proptest::prelude::*;
use serde::{Deserialize, Serialize};

pub const ALLOC_BASE: usize = 64 << 20;
pub const ALLOC_PER_BYTE: usize = 64;

pub struct Tot<'a> {
    pub out: &'a mut Outcome,
    pub len: usize,
}

impl Tot<'_> {
    pub fn run<T>(&mut self, what: &'static str, f: impl FnOnce() -> T) -> Option<T> {
        let (r, peak) = measure_alloc(|| guarded(f));
        self.out.evals += 1;
        if peak > ALLOC_BASE + ALLOC_PER_BYTE * self.len {
            self.out.fail(format!("alloc:{what}"), format!("{what}: peak heap {peak} bytes for a {}-byte input", self.len));
        }
        match r {
            Ok(v) => Some(v),
            Err(p) => {
                if p.msg.contains("FV_HANG") {
                    self.out.fail(format!("hang:{what}"), format!("{what}: reader polled without bound after the end of data"));
                } else {
                    self.out.fails.push(Fail::panic(&format!("panic:{what}"), &p));
                }
                None
            }
        }
    }
}

pub fn exercise_cuesheet(c: &Cuesheet, t: &mut Tot) {
    t.run("Cuesheet::tracks", || c.tracks().count());
    t.run("Cuesheet::track_sample_ranges", || c.track_sample_ranges().count());
    for (ch, bps) in [(1u8, 1u32), (2, 16), (8, 32), (3, 24)] {
        t.run("Cuesheet::track_byte_ranges", || c.track_byte_ranges(ch, bps).count());
    }
    t.run("Cuesheet::display", || c.display("file.flac").to_string().len());
    t.run("Cuesheet::catalog_number", || c.catalog_number().to_string().len());
    t.run("Cuesheet::misc", || (c.track_count(), c.lead_in_samples(), c.is_cdda()));
}

pub fn exercise_list(list: &BlockList, t: &mut Tot) {
    t.run("BlockList::duration", || list.duration());
    t.run("BlockList::decoded_len", || list.decoded_len());
    t.run("BlockList::channel_mask", || list.channel_mask().channels().count());
    if let Some(vc) = list.get::<VorbisComment>() {
        for f in vc.fields.iter().take(8) {
            if let Some((_, v)) = f.split_once('=') {
                t.run("ChannelMask::from_str", || v.parse::<flac_codec::metadata::ChannelMask>().is_ok());
            }
        }
        t.run("VorbisComment::get", || vc.get("WAVEFORMATEXTENSIBLE_CHANNEL_MASK").map(|s| s.len()));
    }
    t.run("BlockList::misc", || (list.channel_count(), list.sample_rate(), list.bits_per_sample(), list.total_samples(), list.md5().copied()));
    t.run("Streaminfo::duration", || (list.streaminfo().duration(), list.streaminfo().decoded_len()));
    for c in list.get_all::<Cuesheet>() {
        exercise_cuesheet(c, t);
    }
    t.run("BlockList::blocks+sizes", || list.clone().into_iter().map(|b| metagen::reported_sizes(&b)).count());
    t.run("write_blocks(parsed)", || {
        let mut v = vec![];
        write_blocks(&mut v, list.blocks()).is_ok()
    });
}

/// every metadata entry point on `bytes`
pub fn exercise_metadata(bytes: &[u8], out: &mut Outcome) {
    let mut t = Tot { out, len: bytes.len() };
    let list = t.run("BlockList::read", || BlockList::read(SegReader::new(bytes.to_vec())).ok()).flatten();
    t.run("read_blocks", || {
        let mut n = 0usize;
        // a caller may keep iterating after an error: the iterator must still come to an end
        let mut items = 0usize;
        for b in read_blocks(SegReader::new(bytes.to_vec())) {
            items += 1;
            if b.is_ok() {
                n += 1;
            }
            if items > bytes.len() + 8 {
                panic!("FV_HANG: read_blocks yields more items than the input has bytes");
            }
        }
        n
    });
    t.run("read_info", || read_info(SegReader::new(bytes.to_vec())).is_ok());
    t.run("read_block::<Streaminfo>", || read_block::<_, Streaminfo>(SegReader::new(bytes.to_vec())).is_ok());
    t.run("read_block::<Padding>", || read_block::<_, Padding>(SegReader::new(bytes.to_vec())).is_ok());
    t.run("read_block::<Application>", || read_block::<_, Application>(SegReader::new(bytes.to_vec())).is_ok());
    t.run("read_block::<SeekTable>", || read_block::<_, SeekTable>(SegReader::new(bytes.to_vec())).is_ok());
    t.run("read_block::<VorbisComment>", || read_block::<_, VorbisComment>(SegReader::new(bytes.to_vec())).is_ok());
    t.run("read_block::<Cuesheet>", || read_block::<_, Cuesheet>(SegReader::new(bytes.to_vec())).is_ok());
    t.run("read_block::<Picture>", || read_block::<_, Picture>(SegReader::new(bytes.to_vec())).is_ok());
    if let Some(list) = list {
        t.out.label("parsed");
        t.out.nontrivial = true;
        if list.get::<Cuesheet>().is_some() {
            t.out.label("parsed-with-cuesheet");
        }
        if list.sample_rate() == 0 {
            t.out.label("sample-rate-0");
        }
        exercise_list(&list, &mut t);
    }
}

// ---------------------------------------------------------------------------------------------

#[derive(Serialize, Deserialize, Clone, Debug, Hash, PartialEq, Eq)]
pub enum MetaMut {
    /// overwrite the 24-bit size of block `block` (index scaled) with `size`
    Size { block: u8, size: u32 },
    /// overwrite the type/last byte of a block header
    TypeByte { block: u8, val: u8 },
    /// set byte at scaled position
    Set { pos: u32, val: u8 },
    /// write a big-endian u32 at scaled position (hostile counts / lengths)
    Set32 { pos: u32, val: u32 },
    Truncate { len: u32 },
    /// clear every "last" flag
    NoLast,
    /// write a big-endian u64 at scaled position (hostile offsets)
    Set64 { pos: u32, val: u64 },
}

#[derive(Serialize, Deserialize, Clone, Debug, Hash, PartialEq, Eq)]
pub struct HostileCase {
    pub blocks: Vec<RBlock>,
    pub muts: Vec<MetaMut>,
    #[serde(with = "hexbytes")]
    pub tail: Vec<u8>,
}

fn scale(pos: u32, len: usize) -> usize {
    if len == 0 { 0 } else { ((pos as u64 * len as u64) >> 32) as usize }
}

pub fn hostile_bytes(c: &HostileCase) -> Vec<u8> {
    let mut b = refmeta::serialize(&c.blocks);
    // header offsets
    let mut hdrs = vec![];
    let mut p = 4usize;
    for blk in &c.blocks {
        hdrs.push(p);
        p += 4 + blk.payload().len();
    }
    for m in &c.muts {
        match m {
            MetaMut::Size { block, size } => {
                if !hdrs.is_empty() {
                    let h = hdrs[(*block as usize * hdrs.len()) >> 8];
                    if h + 4 <= b.len() {
                        b[h + 1] = (size >> 16) as u8;
                        b[h + 2] = (size >> 8) as u8;
                        b[h + 3] = *size as u8;
                    }
                }
            }
            MetaMut::TypeByte { block, val } => {
                if !hdrs.is_empty() {
                    let h = hdrs[(*block as usize * hdrs.len()) >> 8];
                    if h < b.len() {
                        b[h] = *val;
                    }
                }
            }
            MetaMut::Set { pos, val } => {
                if !b.is_empty() {
                    let i = scale(*pos, b.len());
                    b[i] = *val;
                }
            }
            MetaMut::Set32 { pos, val } => {
                if b.len() >= 4 {
                    let i = scale(*pos, b.len() - 3);
                    b[i..i + 4].copy_from_slice(&val.to_be_bytes());
                }
            }
            MetaMut::Set64 { pos, val } => {
                if b.len() >= 8 {
                    let i = scale(*pos, b.len() - 7);
                    b[i..i + 8].copy_from_slice(&val.to_be_bytes());
                }
            }
            MetaMut::Truncate { len } => {
                let n = scale(*len, b.len() + 1);
                b.truncate(n);
            }
            MetaMut::NoLast => {
                for h in &hdrs {
                    if *h < b.len() {
                        b[*h] &= 0x7F;
                    }
                }
            }
        }
    }
    b.extend_from_slice(&c.tail);
    b
}

pub struct HostileMeta;

impl Engine for HostileMeta {
    type Case = HostileCase;
    fn name(&self) -> &'static str {
        "hostile-metadata"
    }
    fn check(&self, c: &HostileCase) -> Outcome {
        let mut out = Outcome::new();
        out.evals = 0;
        let bytes = hostile_bytes(c);
        if c.muts.is_empty() {
            out.label("unmutated");
        }
        exercise_metadata(&bytes, &mut out);
        out
    }
    fn sample(&self, c: &HostileCase) -> serde_json::Value {
        serde_json::json!({"blocks": c.blocks.iter().map(|b| b.type_code()).collect::<Vec<_>>(), "muts": c.muts, "bytes": hostile_bytes(c).len()})
    }
}

#[derive(Serialize, Deserialize, Clone, Debug, Hash, PartialEq, Eq)]
pub struct RawMeta {
    #[serde(with = "hexbytes")]
    pub bytes: Vec<u8>,
}

pub struct RawMetadata;

impl Engine for RawMetadata {
    type Case = RawMeta;
    fn name(&self) -> &'static str {
        "raw-metadata"
    }
    fn check(&self, c: &RawMeta) -> Outcome {
        let mut out = Outcome::new();
        out.evals = 0;
        exercise_metadata(&c.bytes, &mut out);
        out
    }
}

// ---------------------------------------------------------------------------------------------
// cue sheet text

#[derive(Serialize, Deserialize, Clone, Debug, Hash, PartialEq, Eq)]
pub enum TextMut {
    /// replace line `line` (scaled) with the given text
    ReplaceLine { line: u16, text: String },
    DeleteLine { line: u16 },
    DuplicateLine { line: u16 },
    SwapLines { a: u16, b: u16 },
    /// insert text at a scaled character position
    Insert { pos: u16, text: String },
}

#[derive(Serialize, Deserialize, Clone, Debug, Hash, PartialEq, Eq)]
pub struct CueTextCase {
    pub spec: Option<CueSpec>,
    pub raw: String,
    pub muts: Vec<TextMut>,
    pub total_sel: u8,
    pub total: u64,
}

pub fn cue_text(c: &CueTextCase) -> String {
    let base = match &c.spec {
        Some(s) => s.render(),
        None => c.raw.clone(),
    };
    let mut lines: Vec<String> = base.lines().map(|l| l.to_string()).collect();
    for m in &c.muts {
        let n = lines.len();
        match m {
            TextMut::ReplaceLine { line, text } if n > 0 => lines[(*line as usize * n) >> 16] = text.clone(),
            TextMut::DeleteLine { line } if n > 0 => {
                lines.remove((*line as usize * n) >> 16);
            }
            TextMut::DuplicateLine { line } if n > 0 => {
                let l = lines[(*line as usize * n) >> 16].clone();
                lines.push(l);
            }
            TextMut::SwapLines { a, b } if n > 0 => lines.swap((*a as usize * n) >> 16, (*b as usize * n) >> 16),
            TextMut::Insert { pos, text } if n > 0 => {
                let l = &mut lines[(*pos as usize * n) >> 16];
                let at = l.char_indices().nth((*pos as usize) % (l.chars().count() + 1)).map(|x| x.0).unwrap_or(l.len());
                l.insert_str(at, text);
            }
            _ => {}
        }
    }
    lines.join("\n")
}

pub struct CueText;

impl Engine for CueText {
    type Case = CueTextCase;
    fn name(&self) -> &'static str {
        "cue-text"
    }
    fn check(&self, c: &CueTextCase) -> Outcome {
        let mut out = Outcome::new();
        out.evals = 0;
        let text = cue_text(c);
        let model_total = c.spec.as_ref().map(|s| s.model().total_samples).unwrap_or(588 * 1000);
        let total = match c.total_sel % 6 {
            0 => 0,
            1 => model_total,
            2 => u64::MAX,
            3 => model_total + 1,
            4 => 588,
            _ => c.total,
        };
        let mut t = Tot { out: &mut out, len: text.len() };
        let parsed = t.run("Cuesheet::parse", || Cuesheet::parse(total, &text).ok()).flatten();
        if let Some(cs) = parsed {
            t.out.label("parsed");
            t.out.nontrivial = true;
            exercise_cuesheet(&cs, &mut t);
            t.run("Cuesheet::sizes", || metagen::reported_sizes(&Block::from(cs.clone())));
        }
        out
    }
    fn sample(&self, c: &CueTextCase) -> serde_json::Value {
        serde_json::json!({"text_head": cue_text(c).chars().take(240).collect::<String>(), "total_sel": c.total_sel})
    }
}

pub fn hostile_line_strategy() -> BoxedStrategy<String> {
    prop_oneof![
        "INDEX [0-9]{1,3} [0-9]{1,20}:[0-9]{1,3}:[0-9]{1,3}",
        "INDEX [0-9]{1,3} [0-9]{1,20}",
        "TRACK [0-9]{1,4} AUDIO",
        "TRACK [0-9]{1,3}",
        "ISRC [A-Z0-9-]{0,16}",
        "CATALOG [0-9]{0,140}",
        "FLAGS (PRE|DCP|4CH|SCMS)( PRE)?",
        "[A-Z]{0,8} ?.{0,12}",
        // quoting oddities
        "(CATALOG|ISRC|TITLE|FILE) \"{0,3}[A-Z0-9]{0,13}\"{0,3}",
        Just("CATALOG \"".to_string()),
        Just("ISRC \"".to_string()),
        Just("CATALOG \"\"".to_string()),
        Just("ISRC \"\"".to_string()),
        Just("CATALOG '".to_string()),
        Just("INDEX 01 00:00:00".to_string()),
        Just("INDEX 00 00:00:00".to_string()),
        Just("INDEX 255 99:59:74".to_string()),
        Just("TRACK 01 AUDIO".to_string()),
    ]
    .boxed()
}

pub fn text_mut_strategy() -> BoxedStrategy<TextMut> {
    prop_oneof![
        4 => (any::<u16>(), hostile_line_strategy()).prop_map(|(line, text)| TextMut::ReplaceLine { line, text }),
        2 => any::<u16>().prop_map(|line| TextMut::DeleteLine { line }),
        1 => any::<u16>().prop_map(|line| TextMut::DuplicateLine { line }),
        2 => (any::<u16>(), any::<u16>()).prop_map(|(a, b)| TextMut::SwapLines { a, b }),
        1 => (any::<u16>(), ".{0,4}").prop_map(|(pos, text)| TextMut::Insert { pos, text }),
    ]
    .boxed()
}

// ---------------------------------------------------------------------------------------------
// picture sniffers

#[derive(Serialize, Deserialize, Clone, Debug, Hash, PartialEq, Eq)]
pub struct PicCase {
    #[serde(with = "hexbytes")]
    pub data: Vec<u8>,
}

pub struct PictureSniff {
    pub name: &'static str,
}

impl Engine for PictureSniff {
    type Case = PicCase;
    fn name(&self) -> &'static str {
        self.name
    }
    fn check(&self, c: &PicCase) -> Outcome {
        let mut out = Outcome::new();
        out.evals = 0;
        let mut t = Tot { out: &mut out, len: c.data.len() };
        let r = t.run("Picture::new", || Picture::new(PictureType::FrontCover, "d", c.data.clone()).map(|p| (p.media_type, p.width, p.height, p.color_depth)).ok());
        let past_magic = c.data.starts_with(b"\x89PNG\r\n\x1a\n") && c.data.len() > 8 || c.data.starts_with(b"\xFF\xD8\xFF") && c.data.len() > 3 || c.data.starts_with(b"GIF") && c.data.len() > 3;
        if past_magic {
            out.nontrivial = true;
            out.label(if c.data[0] == 0x89 { "png" } else if c.data[0] == 0xFF { "jpeg" } else { "gif" });
        }
        if let Some(Some(_)) = r {
            out.label("sniffed-ok");
        }
        out
    }
}

pub fn png_template() -> Vec<u8> {
    let mut v = b"\x89PNG\r\n\x1a\n".to_vec();
    v.extend_from_slice(&13u32.to_be_bytes());
    v.extend_from_slice(b"IHDR");
    v.extend_from_slice(&100u32.to_be_bytes());
    v.extend_from_slice(&50u32.to_be_bytes());
    v.extend_from_slice(&[8, 3, 0, 0, 0]);
    v.extend_from_slice(&[0, 0, 0, 0]);
    // tEXt chunk then PLTE
    v.extend_from_slice(&4u32.to_be_bytes());
    v.extend_from_slice(b"tEXt");
    v.extend_from_slice(b"abcd");
    v.extend_from_slice(&[0, 0, 0, 0]);
    v.extend_from_slice(&6u32.to_be_bytes());
    v.extend_from_slice(b"PLTE");
    v.extend_from_slice(&[1, 2, 3, 4, 5, 6, 0, 0, 0, 0]);
    v
}

pub fn jpeg_template() -> Vec<u8> {
    let mut v = vec![0xFF, 0xD8, 0xFF, 0xE0, 0x00, 0x06, 1, 2, 3, 4];
    v.extend_from_slice(&[0xFF, 0xC0, 0x00, 0x0B, 8, 0x00, 0x20, 0x00, 0x40, 3, 1, 2, 3]);
    v
}

pub fn gif_template() -> Vec<u8> {
    let mut v = b"GIF89a".to_vec();
    v.extend_from_slice(&[0x10, 0x00, 0x20, 0x00, 0xF7, 0, 0]);
    v
}

/// PNG chunk sequences, JPEG segment sequences and GIF headers with hostile length / dimension fields.
pub fn picture_structured_strategy() -> BoxedStrategy<PicCase> {
    let u32x = || prop_oneof![
        3 => 0u32..40,
        2 => proptest::sample::select(&[0u32, 1, 0x7FFF_FFFF, 0x8000_0000, 0xFFFF_FFF0, 0xFFFF_FFFB, 0xFFFF_FFFC, 0xFFFF_FFFD, 0xFFFF_FFFE, 0xFFFF_FFFF][..]),
        1 => any::<u32>(),
    ];
    let u16x = || prop_oneof![3 => 0u16..40, 2 => proptest::sample::select(&[0u16, 1, 2, 3, 0x7FFF, 0x8000, 0xFFFE, 0xFFFF][..]), 1 => any::<u16>()];
    // PNG: (declared length or None = true length, type, body)
    let chunk = (
        prop_oneof![3 => Just(None), 2 => u32x().prop_map(Some)],
        prop_oneof![3 => Just(*b"PLTE"), 2 => Just(*b"tEXt"), 1 => Just(*b"IDAT"), 1 => Just(*b"IEND"), 1 => Just(*b"IHDR"), 1 => any::<[u8; 4]>()],
        proptest::collection::vec(any::<u8>(), 0..24),
    );
    let png = (u32x(), u32x(), any::<u8>(), prop_oneof![4 => Just(3u8), 3 => proptest::sample::select(&[0u8, 2, 4, 6][..]), 1 => any::<u8>()], prop_oneof![4 => Just(13u32), 1 => u32x()], proptest::collection::vec(chunk, 0..5), 0usize..6)
        .prop_map(|(w, h, depth, ctype, ihdr_len, chunks, cut)| {
            let mut v = b"\x89PNG\r\n\x1a\n".to_vec();
            v.extend_from_slice(&ihdr_len.to_be_bytes());
            v.extend_from_slice(b"IHDR");
            v.extend_from_slice(&w.to_be_bytes());
            v.extend_from_slice(&h.to_be_bytes());
            v.extend_from_slice(&[depth, ctype, 0, 0, 0]);
            v.extend_from_slice(&[0; 4]);
            for (len, ty, body) in chunks {
                v.extend_from_slice(&len.unwrap_or(body.len() as u32).to_be_bytes());
                v.extend_from_slice(&ty);
                v.extend_from_slice(&body);
                v.extend_from_slice(&[0; 4]);
            }
            let n = v.len().saturating_sub(cut.saturating_sub(3));
            v.truncate(n);
            PicCase { data: v }
        });
    // JPEG: (marker, declared length or None = true length, body)
    let seg = (
        prop_oneof![3 => proptest::sample::select(&[0xC0u8, 0xC1, 0xC2, 0xC3, 0xC5, 0xCF][..]), 3 => proptest::sample::select(&[0xE0u8, 0xE1, 0xDB, 0xC4, 0xFE, 0xDD][..]), 1 => proptest::sample::select(&[0xD8u8, 0xD9, 0xDA, 0xFF, 0x00, 0x01, 0xD0][..]), 1 => any::<u8>()],
        prop_oneof![3 => Just(None), 2 => u16x().prop_map(Some)],
        proptest::collection::vec(any::<u8>(), 0..16),
    );
    let jpeg = (proptest::collection::vec(seg, 0..6), 0usize..6).prop_map(|(segs, cut)| {
        let mut v = vec![0xFF, 0xD8];
        for (m, len, body) in segs {
            v.push(0xFF);
            v.push(m);
            v.extend_from_slice(&len.unwrap_or(body.len() as u16 + 2).to_be_bytes());
            v.extend_from_slice(&body);
        }
        let n = v.len().saturating_sub(cut.saturating_sub(3));
        v.truncate(n);
        PicCase { data: v }
    });
    let gif = (any::<bool>(), u16x(), u16x(), any::<u8>(), proptest::collection::vec(any::<u8>(), 0..12)).prop_map(|(v89, w, h, flags, mut tail)| {
        let mut v = if v89 { b"GIF89a".to_vec() } else { b"GIF87a".to_vec() };
        v.extend_from_slice(&w.to_le_bytes());
        v.extend_from_slice(&h.to_le_bytes());
        v.push(flags);
        v.append(&mut tail);
        PicCase { data: v }
    });
    prop_oneof![5 => png, 4 => jpeg, 1 => gif].boxed()
}

pub const RULE: &str = "(a) independently serialised metadata sections (every block type, cue sheets up to the track/index limits) with \
0-4 hostile edits: 24-bit block sizes, type/last bytes, arbitrary bytes, big-endian 32-bit counts/lengths written anywhere, \
truncation, missing last flag, trailing bytes - through BlockList::read, read_blocks, read_info and read_block::<_, T> for all seven T; \
every list that parses has all accessors invoked (duration, decoded_len, channel_mask, cue-sheet tracks / sample ranges / byte ranges \
for several channel/depth pairs / display / catalog) and is re-serialised; (b) raw bytes behind a fLaC marker; (c) cue texts from the \
grammar generator with 0-5 line-level mutations (huge minutes, decreasing indices, index 255, duplicated/missing/swapped lines, odd \
quoting, non-ASCII) or arbitrary text, parsed for totals 0, the model's, u64::MAX, +1, 588, random; (d) PNG/JPEG/GIF-prefixed bytes with \
every header byte position swept over 0..=255, every 4-/2-byte window set to extreme values (both exhaustive), generated PNG chunk / JPEG segment / GIF header sequences with hostile length and dimension fields, and random tails, through Picture::new. Oracle: no unwind, \
bounded polls after end of data, peak heap <= 64 MiB + 64 x input length; both build profiles. Non-trivial = an input that parsed and \
had its accessors invoked, or sniffer input beyond the magic bytes.";

pub fn run(ctx: &Ctx) {
    ctx.set_rule(RULE);
    let t = ctx.tier;
    let checked = crate::engine::profile() == "checked";
    ctx.regress(&HostileMeta);
    ctx.regress(&RawMetadata);
    ctx.regress(&CueText);
    ctx.regress_named(&PictureSniff { name: "picture-random" }, &["picture-byte-sweep", "picture-field-sweep", "picture-structured"]);
    let n = match (t, checked) {
        (Tier::Quick, false) => 200_000,
        (Tier::Quick, true) => 150_000,
        (Tier::Thorough, false) => 6_000_000,
        (Tier::Thorough, true) => 4_000_000,
    };
    let mm = || {
        prop_oneof![
            3 => (any::<u8>(), prop_oneof![Just(0u32), Just(1u32), Just(3u32), Just(4u32), Just(17u32), Just((1u32 << 24) - 1), 0u32..600, any::<u32>().prop_map(|x| x & 0xFFFFFF)])
                .prop_map(|(block, size)| MetaMut::Size { block, size }),
            2 => (any::<u8>(), any::<u8>()).prop_map(|(block, val)| MetaMut::TypeByte { block, val }),
            3 => (any::<u32>(), any::<u8>()).prop_map(|(pos, val)| MetaMut::Set { pos, val }),
            3 => (any::<u32>(), prop_oneof![Just(0u32), Just(1u32), Just(u32::MAX), Just(0x7FFF_FFFFu32), Just(0x0100_0000u32), 0u32..300, any::<u32>()]).prop_map(|(pos, val)| MetaMut::Set32 { pos, val }),
            1 => any::<u32>().prop_map(|len| MetaMut::Truncate { len }),
            1 => Just(MetaMut::NoLast),
            1 => (any::<u32>(), prop_oneof![Just(u64::MAX), Just(1u64 << 63), Just(u64::MAX - 587), Just(u64::MAX / 588 * 588), Just(u64::MAX - 1)]).prop_map(|(pos, val)| MetaMut::Set64 { pos, val }),
        ]
    };
    ctx.search(&HostileMeta, n, move || {
        (metagen::rlist_strategy(), proptest::collection::vec(mm(), 0..=4), proptest::collection::vec(any::<u8>(), 0..8))
            .prop_map(|(blocks, muts, tail)| HostileCase { blocks, muts, tail })
            .boxed()
    });
    ctx.search(&RawMetadata, n / 4, || {
        (0u8..4, proptest::collection::vec(any::<u8>(), 0..120))
            .prop_map(|(si, mut v)| {
                let mut b = b"fLaC".to_vec();
                match si {
                    0 => {}
                    1 => b.extend_from_slice(&[0x00, 0, 0, 34]),
                    _ => {
                        // a lone STREAMINFO flagged last, random contents
                        b.extend_from_slice(&[0x80, 0, 0, 34]);
                        v.resize(v.len().max(34), 0x11);
                    }
                }
                b.append(&mut v);
                RawMeta { bytes: b }
            })
            .boxed()
    });
    ctx.search(&CueText, n, || {
        (
            prop_oneof![4 => cuegen::spec_strategy(99, 100).prop_map(Some), 1 => Just(None)],
            prop_oneof![".{0,200}", "([A-Z]{3,8} [ -~]{0,20}\n){0,12}"],
            prop_oneof![2 => Just(vec![]), 3 => proptest::collection::vec(text_mut_strategy(), 1..=2), 1 => proptest::collection::vec(text_mut_strategy(), 3..=5)],
            prop_oneof![5 => Just(1u8), 3 => any::<u8>()],
            any::<u64>(),
        )
            .prop_map(|(spec, raw, muts, total_sel, total)| CueTextCase { spec, raw, muts, total_sel, total })
            .boxed()
    });
    // picture sniffers: exhaustive sweep of every byte position of three templates
    let templates = [png_template(), jpeg_template(), gif_template()];
    let mut index = vec![];
    let mut total = 0u64;
    for (i, tp) in templates.iter().enumerate() {
        index.push((total, i));
        total += tp.len() as u64 * 256 + tp.len() as u64 + 1;
    }
    let sweep = PictureSniff { name: "picture-byte-sweep" };
    ctx.enumerate(&sweep, total, |k| {
        let j = index.partition_point(|(o, _)| *o <= k) - 1;
        let (o, i) = index[j];
        let r = (k - o) as usize;
        let mut d = templates[i].clone();
        if r < d.len() * 256 {
            d[r / 256] = (r % 256) as u8;
        } else {
            d.truncate(r - d.len() * 256);
        }
        Some(PicCase { data: d })
    });
    ctx.set_exhaustive("picture-byte-sweep", true, "every byte position of a PNG, a JPEG and a GIF header template set to each of 0..=255, and every truncation");
    // every 4-byte and 2-byte window of the templates overwritten with each extreme value
    const U32S: [u32; 14] = [0, 1, 2, 0x7FFF_FFFF, 0x8000_0000, 0x8000_0001, 0xFFFF_FFF0, 0xFFFF_FFFA, 0xFFFF_FFFB, 0xFFFF_FFFC, 0xFFFF_FFFD, 0xFFFF_FFFE, 0xFFFF_FFFF, 0x0100_0000];
    const U16S: [u16; 9] = [0, 1, 2, 3, 4, 0x7FFF, 0x8000, 0xFFFE, 0xFFFF];
    let mut windex = vec![];
    let mut wtotal = 0u64;
    for (i, tp) in templates.iter().enumerate() {
        windex.push((wtotal, i));
        wtotal += (tp.len() as u64) * (U32S.len() + U16S.len()) as u64;
    }
    let wsweep = PictureSniff { name: "picture-field-sweep" };
    ctx.enumerate(&wsweep, wtotal, |k| {
        let j = windex.partition_point(|(o, _)| *o <= k) - 1;
        let (o, i) = windex[j];
        let r = (k - o) as usize;
        let per = U32S.len() + U16S.len();
        let (at, which) = (r / per, r % per);
        let mut d = templates[i].clone();
        if which < U32S.len() {
            for (q, b) in U32S[which].to_be_bytes().iter().enumerate() {
                if at + q < d.len() {
                    d[at + q] = *b;
                }
            }
        } else {
            for (q, b) in U16S[which - U32S.len()].to_be_bytes().iter().enumerate() {
                if at + q < d.len() {
                    d[at + q] = *b;
                }
            }
        }
        Some(PicCase { data: d })
    });
    ctx.set_exhaustive("picture-field-sweep", true, "every 4-byte window of the three templates set to each of 14 extreme 32-bit values and every 2-byte window to each of 9 extreme 16-bit values");
    // structure-aware images: chunk / segment sequences with hostile length fields
    ctx.search(&PictureSniff { name: "picture-structured" }, n / 2, picture_structured_strategy);
    ctx.search(&PictureSniff { name: "picture-random" }, n / 2, || {
        (0u8..3, proptest::collection::vec((any::<u16>(), any::<u8>()), 0..6), proptest::collection::vec(any::<u8>(), 0..60))
            .prop_map(|(k, edits, mut tail)| {
                let mut d = [png_template(), jpeg_template(), gif_template()][k as usize].clone();
                for (p, v) in edits {
                    let i = 3 + (p as usize * (d.len() - 3) >> 16);
                    d[i] = v;
                }
                d.append(&mut tail);
                PicCase { data: d }
            })
            .boxed()
    });
}

pub fn engines() -> Vec<Box<dyn crate::engine::DynEngine>> {
    vec![
        Box::new(HostileMeta),
        Box::new(RawMetadata),
        Box::new(CueText),
        Box::new(PictureSniff { name: "picture-byte-sweep" }),
        Box::new(PictureSniff { name: "picture-field-sweep" }),
        Box::new(PictureSniff { name: "picture-structured" }),
        Box::new(PictureSniff { name: "picture-random" }),
    ]
}
