//! C18 — multithreaded encoding produces the same bytes as single-threaded encoding.
//!
//! This module is compiled into both builds of the harness. The build with feature `par`
//! (the crate's `rayon` feature on) runs the check; the plain build serves as the oracle through
//! `fv oracle-encode`, a child process that encodes cases read from stdin.

use super::c01::{EncCase, Roundtrip, label_case, strip_digits};
use crate::codec;
use crate::engine::{Ctx, Engine, Outcome, Tier};
use crate::opts;
use crate::pcm::{self, ChanRecipe, Kind};
use crate::util::guarded;
use proptest::prelude::*;
use std::cell::RefCell;
use std::io::{BufRead, BufReader, Write};
use std::process::{Child, ChildStdin, ChildStdout, Command, Stdio};

pub fn oracle_exe() -> String {
    format!("{}/harness/target/release/fv", crate::util::root())
}

/// serial side: one JSON case per line in, one line out
pub fn oracle_loop() {
    let stdin = std::io::stdin();
    let stdout = std::io::stdout();
    for line in stdin.lock().lines() {
        let Ok(line) = line else { break };
        let reply = match serde_json::from_str::<EncCase>(&line) {
            Err(e) => format!("BAD {e}"),
            Ok(c) => {
                let pcm = c.recipe.expand();
                match guarded(|| codec::encode_vec(&pcm, &c.opts, c.front, &c.chunks)) {
                    Err(p) => format!("PANIC {}", p.msg.replace('\n', " ")),
                    Ok(Err(e)) => format!("ERR {}: {}", e.stage(), e.text().replace('\n', " ")),
                    Ok(Ok(b)) => format!("OK {}", crate::util::hex(&b)),
                }
            }
        };
        let mut o = stdout.lock();
        let _ = writeln!(o, "{reply}");
        let _ = o.flush();
    }
}

struct Oracle {
    _child: Child,
    stdin: ChildStdin,
    stdout: BufReader<ChildStdout>,
}

thread_local! {
    static ORACLE: RefCell<Option<Oracle>> = const { RefCell::new(None) };
}

fn ask_oracle(c: &EncCase) -> Result<String, String> {
    ORACLE.with(|o| {
        let mut o = o.borrow_mut();
        if o.is_none() {
            let mut child = Command::new(oracle_exe())
                .arg("oracle-encode")
                .stdin(Stdio::piped())
                .stdout(Stdio::piped())
                .stderr(Stdio::null())
                .spawn()
                .map_err(|e| format!("cannot start the serial oracle {}: {e}", oracle_exe()))?;
            let stdin = child.stdin.take().ok_or("no stdin")?;
            let stdout = BufReader::new(child.stdout.take().ok_or("no stdout")?);
            *o = Some(Oracle { _child: child, stdin, stdout });
        }
        let or = o.as_mut().unwrap();
        let line = serde_json::to_string(c).map_err(|e| e.to_string())?;
        writeln!(or.stdin, "{line}").map_err(|e| format!("oracle write: {e}"))?;
        or.stdin.flush().map_err(|e| format!("oracle flush: {e}"))?;
        let mut reply = String::new();
        or.stdout.read_line(&mut reply).map_err(|e| format!("oracle read: {e}"))?;
        if reply.is_empty() {
            *o = None;
            return Err("oracle process closed its output".into());
        }
        Ok(reply.trim_end().to_string())
    })
}

pub struct Parallel;

pub const POOLS: [usize; 6] = [1, 2, 3, 4, 8, 16];

#[cfg(feature = "par")]
fn encode_in_pool(c: &EncCase, threads: usize, busy: bool, decoy: bool) -> Result<Result<Vec<u8>, String>, String> {
    let pool = rayon::ThreadPoolBuilder::new().num_threads(threads).build().map_err(|e| e.to_string())?;
    if decoy {
        // another encoder runs first on the same worker threads: same input and block length,
        // different analysis window and LPC order - nothing of it may carry over
        let mut d = c.clone();
        d.opts.window = if d.opts.window == opts::Win::Hann { opts::Win::Tukey(0.5f32.to_bits()) } else { opts::Win::Hann };
        d.opts.max_lpc = match d.opts.max_lpc {
            Some(n) if n > 1 => Some(n - 1),
            other => other,
        };
        let pcm = d.recipe.expand();
        let _ = pool.install(|| guarded(|| codec::encode_vec(&pcm, &d.opts, d.front, &d.chunks)));
    }
    if busy {
        // competing tasks perturb work stealing
        for k in 0..threads * 2 {
            pool.spawn(move || {
                let mut x = k as u64 + 1;
                for _ in 0..20_000 {
                    x = x.wrapping_mul(6364136223846793005).wrapping_add(1442695040888963407);
                }
                std::hint::black_box(x);
            });
        }
    }
    let pcm = c.recipe.expand();
    let r = pool.install(|| guarded(|| codec::encode_vec(&pcm, &c.opts, c.front, &c.chunks)));
    Ok(match r {
        Err(p) => Err(format!("PANIC {}", p.msg)),
        Ok(Err(e)) => Err(format!("ERR {}: {}", e.stage(), e.text())),
        Ok(Ok(b)) => Ok(b),
    })
}

#[cfg(not(feature = "par"))]
fn encode_in_pool(_c: &EncCase, _threads: usize, _busy: bool, _decoy: bool) -> Result<Result<Vec<u8>, String>, String> {
    Err("this build of the harness does not have the crate's rayon feature enabled".into())
}

impl Engine for Parallel {
    type Case = EncCase;
    fn name(&self) -> &'static str {
        "parallel-vs-serial"
    }
    fn check(&self, c: &EncCase) -> Outcome {
        let mut out = Outcome::new();
        out.evals = 0;
        let pcm = c.recipe.expand();
        label_case(&pcm, c, &mut out);
        let blocks = pcm.frames().div_ceil(c.opts.block_size as usize);
        out.nontrivial = pcm.channels >= 2 && blocks >= 2;
        let serial = match ask_oracle(c) {
            Ok(s) => s,
            Err(e) => {
                out.infra.push(e);
                return out;
            }
        };
        for (pi, threads) in POOLS.iter().enumerate() {
            for rep in 0..3 {
                out.evals += 1;
                let busy = rep == 2 || (rep == 1 && pi % 2 == 0);
                let decoy = rep == 1;
                match encode_in_pool(c, *threads, busy, decoy) {
                    Err(e) => {
                        out.infra.push(e);
                        return out;
                    }
                    Ok(r) => {
                        let got = match &r {
                            Ok(b) => format!("OK {}", crate::util::hex(b)),
                            Err(e) => e.replace('\n', " "),
                        };
                        if got != serial {
                            let kind = match (&r, serial.starts_with("OK ")) {
                                (Ok(_), true) => "bytes-differ",
                                (Ok(_), false) => "parallel-succeeds-serial-fails",
                                (Err(_), true) => "parallel-fails-serial-succeeds",
                                (Err(_), false) => "different-errors",
                            };
                            out.fail(
                                format!("parallel-differs:{kind}"),
                                format!(
                                    "{threads} worker threads (repeat {rep}, busy={busy}, after-another-encoder={decoy}): {} vs serial {}",
                                    strip_digits(&got.chars().take(60).collect::<String>()),
                                    strip_digits(&serial.chars().take(60).collect::<String>())
                                ),
                            );
                            return out;
                        }
                    }
                }
            }
        }
        out
    }
    fn sample(&self, c: &EncCase) -> serde_json::Value {
        Roundtrip { name: "x", readers: &[] }.sample(c)
    }
}

/// biased towards ties and multi-channel input
pub fn par_case_strategy() -> BoxedStrategy<EncCase> {
    (opts::opts_strategy(opts::small_block_strategy()), super::c01::front_strategy())
        .prop_flat_map(|(o, front)| {
            let frames = opts::frames_strategy(o.block_size, 6);
            let channels = prop_oneof![1 => Just(1u8), 5 => Just(2u8), 3 => 3u8..=8].boxed();
            (pcm::recipe_strategy(channels, frames), 0u8..6).prop_map(move |(mut recipe, tie)| {
                // ties: identical / mirrored / silent channels
                match tie {
                    0 => {
                        for c in recipe.chans.iter_mut().skip(1) {
                            c.relation = 1;
                        }
                    }
                    1 => {
                        for c in recipe.chans.iter_mut().skip(1) {
                            c.relation = 2;
                        }
                    }
                    2 => {
                        for c in recipe.chans.iter_mut() {
                            *c = ChanRecipe { kind: Kind::Const { which: 0 }, wasted: 0, relation: 0 };
                        }
                    }
                    _ => {}
                }
                EncCase { recipe, opts: o.clone(), front, chunks: vec![] }
            })
        })
        .boxed()
}

/// Blocks above 4096 samples with clean, highly predictable content and LPC on: the numerically
/// delicate end of the analysis (any change in floating-point summation order shows in the bytes).
pub fn par_large_strategy() -> BoxedStrategy<EncCase> {
    (
        proptest::sample::select(&[4608u16, 8192, 16384, 4097, 5000][..]),
        proptest::sample::select(&[16u8, 24, 12][..]),
        1u8..=2,
        prop_oneof![Just(Some(8u8)), Just(Some(12u8)), Just(Some(32u8))],
        opts::window_strategy(),
        any::<u64>(),
        proptest::collection::vec(
            prop_oneof![
                (1u8..=3, 0u8..2).prop_map(|(n, noise)| Kind::Sines { n, amp: 30, noise }),
                (1u8..=4, 0u8..2).prop_map(|(partials, noise)| Kind::Tonal { partials, amp: 30, noise }),
                (1u8..=4).prop_map(|degree| Kind::Poly { degree, noise: 0 }),
                (2u16..40).prop_map(|run| Kind::Square { run }),
            ],
            2,
        ),
        super::c01::front_strategy(),
    )
        .prop_map(|(bs, bps, nch, max_lpc, window, seed, kinds, front)| {
            let mut o = opts::EncOpts::small(bs);
            o.max_lpc = max_lpc;
            o.window = window;
            let chans = kinds.into_iter().take(nch as usize).map(|kind| ChanRecipe { kind, wasted: 0, relation: 0 }).collect();
            EncCase { recipe: pcm::Recipe { bps, rate: 44100, frames: bs as u32, seed, chans, seg: 0, ms_mix: 0 }, opts: o, front, chunks: vec![] }
        })
        .boxed()
}

pub const RULE: &str = "cases from the C01 space biased towards 2-8 channels and towards ties (identical, mirrored, silent channels); the \
harness built with the crate's rayon feature encodes each case inside dedicated thread pools of 1, 2, 3, 4, 8 and 16 workers, three \
times each, with and without competing busy tasks spawned into the same pool and with or without another encoder (other analysis window, other LPC order, same block length) having run on the same worker threads just before; music-like cases with blocks to 4608 and clean-signal cases with blocks of 4097-16384 samples are mixed in; the bytes (or the error) must equal what the build \
without the feature produces, obtained from a child process of the serial harness binary. Non-trivial = >= 2 channels and >= 2 frames \
(so that join, vec_map and cache reuse all run). Distinct = digest of the case. Schedules are sampled, not enumerated.";

pub fn run(ctx: &Ctx) {
    ctx.set_rule(RULE);
    ctx.assume("rayon's scheduler cannot be controlled from outside: interleavings are sampled by pool size, repetition and competing load; a race confined to a rare interleaving may be missed");
    if !cfg!(feature = "par") {
        ctx.infra("C18 must be run from the harness build with feature `par`");
        return;
    }
    if !std::path::Path::new(&oracle_exe()).exists() {
        ctx.infra(format!("serial oracle binary {} is missing (build the release profile first)", oracle_exe()));
        return;
    }
    ctx.regress(&Parallel);
    let n = match ctx.tier {
        Tier::Quick => 1_500,
        Tier::Thorough => 60_000,
    };
    ctx.search(&Parallel, n, || {
        prop_oneof![
            20 => par_case_strategy(),
            3 => par_large_strategy(),
            // music-like material with larger blocks: the LPC/FIXED and channel-pair tasks really compete
            4 => super::c01::tonal_case_strategy().prop_map(|mut c| {
                c.chunks = vec![];
                c
            }),
        ]
        .boxed()
    });
}

pub fn engines() -> Vec<Box<dyn crate::engine::DynEngine>> {
    vec![Box::new(Parallel)]
}
