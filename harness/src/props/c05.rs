//! C05 — damaged or invalid streams are reported as errors, never decoded silently.

use super::c01::{self, strip_digits};
use super::c03::interleave;
use super::c04::{MutCase, build_mutant};
use crate::codec::{self, Front, ReaderKind};
use crate::engine::{Ctx, Engine, Fail, Outcome, Tier, sample_strategy};
use crate::framegen;
use crate::mutant::N_CLASSES;
use crate::pcm::Rng;
use crate::refdec::{self, Cfg, Decoded};
use crate::util::{guarded, hexbytes};
use flac_codec::decode::{Verified, verify_reader};
use proptest::prelude::*;
use serde::{Deserialize, Serialize};
use std::io::Cursor;

#[derive(Serialize, Deserialize, Clone, Debug, Hash, PartialEq, Eq)]
pub enum Damage {
    /// flip bit `bit` (MSB-first index over the whole file)
    Flip { bit: u32 },
    /// keep only the first `len` bytes
    Truncate { len: u32 },
}

#[derive(Serialize, Deserialize, Clone, Debug, Hash, PartialEq, Eq)]
pub struct DamageCase {
    #[serde(with = "hexbytes")]
    pub file: Vec<u8>,
    pub damage: Damage,
}

/// interleaved PCM of the first k frames of a reference decode
fn prefix_pcm(d: &Decoded, k: usize) -> Vec<i32> {
    let n: usize = d.frames[..k].iter().map(|f| f.bs as usize).sum();
    let chans: Vec<Vec<i32>> = d.pcm.iter().map(|c| c[..n].to_vec()).collect();
    interleave(&chans)
}

/// Checks the "delivered samples are a whole-frame prefix of the original" clause.
/// `lenient` = independent lenient decode of the *altered* bytes.
pub fn check_delivered(
    delivered: &[i32],
    orig_pcm: &[i32],
    lenient: Option<&Decoded>,
    out: &mut Outcome,
    what: &str,
    // Some(n): the reader serialises to n bytes per sample, so out-of-range values of a
    // checksum-coincidence frame arrive truncated to that width
    wrap_bytes: Option<usize>,
) {
    if delivered.is_empty() {
        return;
    }
    let Some(l) = lenient else {
        out.fail(
            format!("{what}:delivered-from-unparseable-stream"),
            format!("{} samples were delivered although the independent decoder cannot even read the metadata", delivered.len()),
        );
        return;
    };
    // whole frames of the altered stream?
    let mut k = None;
    let ch = l.pcm.len().max(1);
    let mut acc = 0usize;
    for (i, f) in l.frames.iter().enumerate() {
        acc += f.bs as usize * ch;
        if acc == delivered.len() {
            k = Some(i + 1);
            break;
        }
        if acc > delivered.len() {
            break;
        }
    }
    let Some(k) = k else {
        out.fail(
            format!("{what}:delivered-not-whole-frames"),
            format!("{} samples delivered; not a whole number of the frames the altered bytes define", delivered.len()),
        );
        return;
    };
    let mut lp = prefix_pcm(l, k);
    if let Some(n) = wrap_bytes {
        lp = crate::pcm::bytes_to_samples(&crate::pcm::samples_to_bytes(&lp, n, false), n, false);
    }
    if lp != delivered {
        out.fail(
            format!("{what}:delivered-differs-from-format"),
            "delivered samples differ from what the independent decoder reads from the same (altered) bytes".to_string(),
        );
        return;
    }
    if delivered.len() > orig_pcm.len() || orig_pcm[..delivered.len()] != *delivered {
        // both decoders agree: the altered bytes *are* checksum-valid frames with other content
        out.label("coincidentally-valid-frame");
    }
}

pub struct Damaged {
    pub name: &'static str,
}

impl Engine for Damaged {
    type Case = DamageCase;
    fn name(&self) -> &'static str {
        self.name
    }
    fn check(&self, c: &DamageCase) -> Outcome {
        let mut out = Outcome::new();
        // the undamaged original, by the independent decoder
        let orig = match refdec::decode_file(&c.file, &Cfg::LENIENT) {
            Ok(d) => d,
            Err(e) => {
                out.infra.push(format!("corpus file is not decodable by refdec: {e}"));
                return out;
            }
        };
        let orig_pcm = interleave(&orig.pcm);
        let mut b = c.file.clone();
        match c.damage {
            Damage::Flip { bit } => {
                let bit = bit as usize;
                if bit / 8 >= b.len() || bit / 8 < orig.first_frame {
                    return out;
                }
                b[bit / 8] ^= 0x80 >> (bit % 8);
                out.label("flip");
                let byte = bit / 8;
                if let Some(f) = orig.frames.iter().find(|f| byte >= f.offset && byte < f.offset + f.len) {
                    let rel = byte - f.offset;
                    if rel < f.hdr_len - 1 {
                        out.label("region:header");
                    } else if rel == f.hdr_len - 1 {
                        out.label("region:crc8");
                    } else if rel >= f.len - 2 {
                        out.label("region:crc16");
                    } else {
                        out.label("region:subframes");
                        out.nontrivial = true;
                    }
                }
            }
            Damage::Truncate { len } => {
                let len = (len as usize).min(b.len());
                if len == b.len() {
                    return out;
                }
                b.truncate(len);
                out.label("truncate");
                if len < orig.first_frame {
                    out.label("region:metadata");
                } else if orig.frames.iter().any(|f| f.offset == len) {
                    out.label("region:frame-boundary");
                } else {
                    out.label("region:inside-frame");
                    if orig.frames.first().map(|f| len > f.offset + f.len).unwrap_or(false) {
                        out.nontrivial = true;
                    }
                }
            }
        }
        // "another valid stream" is judged by the framing rules; STREAMINFO's informational
        // fields (frame-size extrema, MD5) are not part of plain decoding
        let strict_full_ok = refdec::decode_file(&b, &Cfg::STRICT).is_ok();
        let strict_ok = refdec::decode_file(&b, &Cfg::STRICT_FRAMING).is_ok();
        let lenient = refdec::decode_partial(&b, &Cfg::LENIENT).ok().map(|(d, _)| d);
        if strict_ok {
            out.label("coincidentally-valid-stream");
        }
        for kind in [ReaderKind::Sample, ReaderKind::ByteLE] {
            match guarded(|| codec::decode_with(Cursor::new(&b), kind, 4096)) {
                Err(p) => out.fails.push(Fail::panic("decode-panic", &p)),
                Ok(Err(_open_err)) => { /* refusing to open is an error report */ }
                Ok(Ok(d)) => {
                    if d.err.is_none() && !strict_ok {
                        let lenient_ok = refdec::decode_file(&b, &Cfg::LENIENT).is_ok();
                        if lenient_ok {
                            // every frame up to the declared total is checksum-valid in the altered
                            // bytes as well (the flip moved the end of a frame and the new parse passes
                            // both CRCs by chance, about one flip in 10^5); what the strict validator
                            // objects to are the bytes left over behind the last frame, which no
                            // decoder looks at. As far as decoding goes this is another valid stream;
                            // the delivered samples are still compared below.
                            out.label("coincidentally-valid-frames-then-unused-bytes");
                        } else {
                            out.fail(
                                "silent-accept".to_string(),
                                format!("{kind:?}: damaged stream ({:?}) decoded to the end without any error ({} samples)", c.damage, d.samples.len()),
                            );
                        }
                    }
                    let wrap = if kind == ReaderKind::ByteLE { Some((d.bps as usize).div_ceil(8)) } else { None };
                    check_delivered(&d.samples, &orig_pcm, lenient.as_ref(), &mut out, "damaged", wrap);
                }
            }
        }
        // verification verdict
        match guarded(|| verify_reader(Cursor::new(&b))) {
            Err(p) => out.fails.push(Fail::panic("verify-panic", &p)),
            Ok(Ok(Verified::MD5Match)) => {
                // a match must mean the decoded PCM hashes to the stored digest
                if let Ok(Ok(d)) = guarded(|| codec::decode_with(Cursor::new(&b), ReaderKind::ByteLE, 4096)) {
                    let bytes = crate::pcm::samples_to_bytes(&d.samples, (d.bps as usize).div_ceil(8), false);
                    let mut ctx = md5::Context::new();
                    ctx.consume(&bytes);
                    let digest = ctx.finalize().0;
                    if d.err.is_some() || Some(digest) != d.md5 {
                        out.fail("md5-match-without-matching-pcm", "verify_reader reports MD5Match but the decoded PCM does not hash to the stored digest");
                    }
                }
                if !strict_full_ok {
                    out.fail("md5-match-on-damaged-stream", format!("verify_reader reports MD5Match for a damaged stream ({:?})", c.damage));
                }
            }
            Ok(Ok(v)) => {
                if !strict_ok && lenient.as_ref().map(|l| l.info.md5 != [0; 16]).unwrap_or(false) && v == Verified::NoMD5 {
                    out.fail("verify-nomd5-on-damaged-stream", "verify_reader reports NoMD5 for a damaged stream carrying a digest");
                }
                // MD5Mismatch or NoMD5(without digest): for a damaged stream without digest NoMD5 means "decoded fine"
                if !strict_ok && v == Verified::NoMD5 {
                    let lenient_ok = refdec::decode_file(&b, &Cfg::LENIENT).is_ok();
                    if !lenient_ok {
                        out.fail("verify-ok-on-damaged-stream", format!("verify_reader succeeded ({v:?}) on a damaged stream ({:?})", c.damage));
                    }
                }
            }
            Ok(Err(_)) => {}
        }
        out.evals = 3;
        out
    }
    fn sample(&self, c: &DamageCase) -> serde_json::Value {
        serde_json::json!({"file_len": c.file.len(), "damage": c.damage, "file_hex_prefix": crate::util::hex(&c.file[..c.file.len().min(64)])})
    }
}

// ---------------------------------------------------------------------------------------------
// must-reject classes

pub struct MustReject;

impl Engine for MustReject {
    type Case = MutCase;
    fn name(&self) -> &'static str {
        "must-reject-mutants"
    }
    fn check(&self, c: &MutCase) -> Outcome {
        let mut out = Outcome::new();
        let (gs, applied) = build_mutant(c);
        let Some(m) = applied.first() else { return out };
        out.label(m.class);
        if !m.must_reject {
            out.label("class-not-required-to-be-rejected");
            return out;
        }
        // valid stream for comparison
        let mut rng = Rng(c.seed);
        let valid = framegen::gen_stream(&mut rng, c.low_depth, c.max_frames.max(1) as usize, c.max_bs.max(16));
        let orig_pcm = interleave(&valid.pcm);
        let lenient = refdec::decode_partial(&gs.bytes, &Cfg::LENIENT).ok();
        let lenient_whole_ok = matches!(&lenient, Some((_, None)));
        // classes enforced through STREAMINFO are not judged by the lenient decoder
        let streaminfo_class = matches!(m.class, "blocksize>streaminfo-max" | "short-nonfinal-block" | "frame-runs-past-declared-total");
        if lenient_whole_ok && !streaminfo_class {
            out.label("mutant-coincidentally-valid");
            return out;
        }
        out.nontrivial = true;
        for kind in [ReaderKind::SampleToEnd, ReaderKind::Channel] {
            match guarded(|| codec::decode_with(Cursor::new(&gs.bytes), kind, 4096)) {
                Err(p) => out.fails.push(Fail::panic("decode-panic", &p)),
                Ok(Err(_)) => {}
                Ok(Ok(d)) => {
                    if d.err.is_none() {
                        out.fail(
                            format!("accepted:{}", m.class),
                            format!("{kind:?}: stream with a '{}' frame (frame {}) decoded without error", m.class, m.frame),
                        );
                    }
                    // samples before the error: whole frames preceding the bad one
                    let before: usize = gs.frames[..m.frame.min(gs.frames.len())].iter().map(|f| f.3 as usize).sum::<usize>() * gs.params.channels as usize;
                    if d.err.is_some() && d.samples.len() > before && !streaminfo_class {
                        check_delivered(&d.samples, &orig_pcm, lenient.as_ref().map(|(d, _)| d), &mut out, "mutant", None);
                    }
                }
            }
        }
        out.evals = 2;
        out
    }
    fn sample(&self, c: &MutCase) -> serde_json::Value {
        let (gs, applied) = build_mutant(c);
        serde_json::json!({"case": c, "classes": applied.iter().map(|m| m.class).collect::<Vec<_>>(), "bytes": gs.bytes.len()})
    }
}

// ---------------------------------------------------------------------------------------------

/// MD5 field altered in one bit: verification must not report a match.
#[derive(Serialize, Deserialize, Clone, Debug, Hash, PartialEq, Eq)]
pub struct Md5Case {
    #[serde(with = "hexbytes")]
    pub file: Vec<u8>,
    pub bit: u8,
}

pub struct Md5Bit;

impl Engine for Md5Bit {
    type Case = Md5Case;
    fn name(&self) -> &'static str {
        "md5-single-bit"
    }
    fn check(&self, c: &Md5Case) -> Outcome {
        let mut out = Outcome::new();
        let mut b = c.file.clone();
        if b.len() < 42 || b[26..42] == [0u8; 16] {
            return out;
        }
        let bit = c.bit as usize % 128;
        b[26 + bit / 8] ^= 0x80 >> (bit % 8);
        if b[26..42] == [0u8; 16] {
            return out;
        }
        out.nontrivial = true;
        match guarded(|| verify_reader(Cursor::new(&b))) {
            Err(p) => out.fails.push(Fail::panic("verify-panic", &p)),
            Ok(Ok(Verified::MD5Mismatch)) => {}
            Ok(Ok(v)) => out.fail(format!("md5-bit-flip-verdict:{v:?}"), format!("digest bit {bit} flipped, verify_reader says {v:?}")),
            Ok(Err(e)) => out.fail(format!("md5-bit-flip-error:{}", strip_digits(&e.to_string())), format!("digest bit {bit} flipped, verify_reader fails with {e}")),
        }
        out
    }
}

/// Corpus of small valid files: crate-encoded + independent generator.
pub fn corpus(seed: u64, n_crate: usize, n_gen: usize, max_len: usize) -> Vec<Vec<u8>> {
    let mut files = vec![];
    let strat = c01::enc_case_strategy(false, 3);
    let mut round = 0u64;
    while files.len() < n_crate && round < 200 {
        for c in sample_strategy(&strat, seed.wrapping_add(round * 7919), 64) {
            if files.len() >= n_crate {
                break;
            }
            let pcm = c.recipe.expand();
            if pcm.frames() > 200 || pcm.channels > 4 {
                continue;
            }
            let mut o = c.opts.clone();
            o.default_padding = false;
            o.padding = None;
            o.extra_meta = 0;
            if let Ok(Ok(b)) = guarded(|| codec::encode_vec(&pcm, &o, Front::Samples, &[])) {
                if b.len() <= max_len && refdec::decode_file(&b, &Cfg::STRICT).is_ok() {
                    files.push(b);
                }
            }
        }
        round += 1;
    }
    let mut s = seed ^ 0xABCDEF;
    let mut tries = 0;
    while files.len() < n_crate + n_gen && tries < 100_000 {
        tries += 1;
        s = s.wrapping_mul(6364136223846793005).wrapping_add(1442695040888963407);
        let mut rng = Rng(s);
        let gs = framegen::gen_stream(&mut rng, false, 3, 40);
        if gs.bytes.len() <= max_len && gs.md5 != framegen::Md5Mode::Wrong && refdec::decode_file(&gs.bytes, &Cfg::STRICT).is_ok() {
            files.push(gs.bytes);
        }
    }
    files
}

pub const RULE: &str = "corpus of small valid files (crate-encoded over the C01 space and independently generated ones with constructs \
the encoder never emits); per file EVERY single-bit flip from the first frame byte to the end and EVERY truncation length is applied \
(exhaustive per file). Oracle: decoding ends in an error unless the independent strict validator says the altered bytes are a valid \
stream; samples delivered before the error are whole frames and equal what the independent decoder reads from the same altered bytes \
(differences from the original there are checksum coincidences, counted, not blamed); MD5Match only with matching PCM. Plus every \
must-reject mutant class with valid checksums, and all 128 single-bit alterations of stored MD5 digests. Non-trivial = damage inside \
subframe data (not header, not a CRC field), a cut inside a frame after at least one whole frame, or a must-reject mutant the \
independent decoder also rejects. Distinct = digest of (file, damage).";

pub fn run(ctx: &Ctx) {
    ctx.set_rule(RULE);
    ctx.assume("must-reject classes are the ones the statement names; reserved single header bits, non-zero padding bits and over-long coded numbers are not required to be refused");
    let t = ctx.tier;
    let sweep = Damaged { name: "flip-truncate-exhaustive" };
    ctx.regress(&sweep);
    ctx.regress(&MustReject);
    let (n_crate, n_gen) = match t {
        Tier::Quick => (80, 60),
        Tier::Thorough => (500, 400),
    };
    let files = corpus(ctx.seed, n_crate, n_gen, if t == Tier::Quick { 600 } else { 1500 });
    if files.len() < (n_crate + n_gen) / 2 {
        ctx.infra(format!("corpus too small: {} files", files.len()));
    }
    let mut index = vec![];
    let mut total = 0u64;
    for (i, f) in files.iter().enumerate() {
        index.push((total, i));
        total += f.len() as u64 * 8 + f.len() as u64;
    }
    ctx.enumerate(&sweep, total, |k| {
        let j = index.partition_point(|(o, _)| *o <= k) - 1;
        let (o, i) = index[j];
        let f = &files[i];
        let r = (k - o) as usize;
        let nbits = f.len() * 8;
        Some(DamageCase {
            file: f.clone(),
            damage: if r < nbits { Damage::Flip { bit: r as u32 } } else { Damage::Truncate { len: (r - nbits) as u32 } },
        })
    });
    ctx.set_exhaustive(
        "flip-truncate-exhaustive",
        true,
        &format!("every single-bit flip in the frame region and every truncation length of {} files ({} bytes in total)", files.len(), files.iter().map(|f| f.len()).sum::<usize>()),
    );
    ctx.extra("corpus_files", serde_json::json!(files.len()));
    // MD5 single-bit alterations
    let md5files: Vec<&Vec<u8>> = files.iter().filter(|f| f.len() >= 42 && f[26..42] != [0u8; 16]).take(if t == Tier::Quick { 12 } else { 120 }).collect();
    ctx.enumerate(&Md5Bit, md5files.len() as u64 * 128, |k| Some(Md5Case { file: md5files[(k / 128) as usize].clone(), bit: (k % 128) as u8 }));
    ctx.set_exhaustive("md5-single-bit", true, "all 128 single-bit alterations of the stored digest of each file");
    // must-reject mutants: all classes x many streams
    let n = match t {
        Tier::Quick => 300_000,
        Tier::Thorough => 5_000_000,
    };
    ctx.search(&MustReject, n, || {
        (any::<u64>(), 1u8..=3, prop_oneof![4 => 16u32..=48, 1 => 16u32..=300], 0u8..N_CLASSES as u8, any::<u8>())
            .prop_map(|(seed, max_frames, max_bs, class, pick)| MutCase { seed, low_depth: false, max_frames, max_bs, muts: vec![(class, pick)] })
            .boxed()
    });
}

pub fn engines() -> Vec<Box<dyn crate::engine::DynEngine>> {
    vec![Box::new(Damaged { name: "flip-truncate-exhaustive" }), Box::new(MustReject), Box::new(Md5Bit)]
}
