use crate::engine::{Ctx, DynEngine};

macro_rules! props {
    ($( $id:literal => $m:ident ),* $(,)?) => {
        $( pub mod $m; )*
        pub fn run(prop: &str, ctx: &Ctx) -> bool {
            match prop {
                $( $id => $m::run(ctx), )*
                _ => return false,
            }
            true
        }
        pub fn engines(prop: &str) -> Vec<Box<dyn DynEngine>> {
            match prop {
                $( $id => $m::engines(), )*
                _ => vec![],
            }
        }
    };
}

props! {
    "C01" => c01,
    "C02" => c02,
    "C03" => c03,
    "C04" => c04,
    "C05" => c05,
    "C06" => c06,
    "C07" => c07,
    "C08" => c08,
    "C09" => c09,
    "C10" => c10,
    "C11" => c11,
    "C12" => c12,
    "C13" => c13,
    "C14" => c14,
    "C15" => c15,
    "C16" => c16,
    "C17" => c17,
    "C18" => c18,
    "C19" => c19,
    "C20" => c20,
}
