use crate::engine::{Ctx, DynEngine};

pub mod c01;

pub fn run(prop: &str, ctx: &Ctx) -> bool {
    match prop {
        "C01" => c01::run(ctx),
        _ => return false,
    }
    true
}

pub fn engines(prop: &str) -> Vec<Box<dyn DynEngine>> {
    match prop {
        "C01" => c01::engines(),
        _ => vec![],
    }
}
