//! C16 — raw frame streams are self-describing; the stream reader fabricates no frame.

use super::c01::strip_digits;
use super::c02::{StreamCase, StreamConformance, stream_case_strategy, write_stream};
use super::c03::interleave;
use crate::engine::{Ctx, Engine, Fail, Outcome, Tier};
use crate::iow::SplitBuf;
use crate::pcm::{Pcm, Rng};
use crate::refdec::{self, Cfg};
use crate::util::guarded;
use flac_codec::decode::FlacStreamReader;
use proptest::prelude::*;
use serde::{Deserialize, Serialize};

#[derive(Serialize, Deserialize, Clone, Debug, Hash, PartialEq, Eq)]
pub struct Garbage {
    /// 0 none, 1 sync-free random, 2 rich in FF (no sync), 3 sync look-alikes, 4 truncated copy of a real frame,
    /// 5 sync-free ending in FF
    pub kind: u8,
    pub len: u16,
    pub seed: u32,
}

#[derive(Serialize, Deserialize, Clone, Debug, Hash, PartialEq, Eq)]
pub struct GarbageCase {
    pub stream: StreamCase,
    /// one piece before each frame and one after the last (missing entries = none)
    pub garbage: Vec<Garbage>,
    /// 0 unsplit, 1 split inside every frame's sync code, 2 one-byte buffers, 3 random splits, 4 split at every frame start
    pub split_mode: u8,
    pub split_seed: u32,
    /// inject ErrorKind::Interrupted at this fill_buf call
    pub interrupt_at: Option<u16>,
}

fn is_sync_pair(a: u8, b: u8) -> bool {
    a == 0xFF && (b >> 1) == 0x7C
}

fn has_sync(b: &[u8]) -> bool {
    b.windows(2).any(|w| is_sync_pair(w[0], w[1]))
}

pub fn make_garbage(g: &Garbage, frames: &[Vec<u8>]) -> Vec<u8> {
    let mut r = Rng(g.seed as u64 * 2654435761 + g.kind as u64);
    let n = g.len as usize;
    let mut v: Vec<u8> = match g.kind % 6 {
        0 => vec![],
        1 | 5 => (0..n).map(|_| r.next() as u8).collect(),
        2 => (0..n).map(|_| if r.below(2) == 0 { 0xFF } else { r.next() as u8 }).collect(),
        3 => {
            let mut v = vec![];
            while v.len() < n {
                v.push(0xFF);
                v.push(0xF8 | (r.below(2) as u8));
                for _ in 0..r.below(12) {
                    v.push(r.next() as u8);
                }
            }
            v
        }
        _ => {
            if frames.is_empty() {
                vec![]
            } else {
                let f = &frames[r.below(frames.len() as u64) as usize];
                let cut = 1 + r.below(f.len().saturating_sub(1).max(1) as u64) as usize;
                f[..cut.min(f.len().saturating_sub(1)).max(1).min(f.len())].to_vec()
            }
        }
    };
    if matches!(g.kind % 6, 1 | 2 | 5) {
        // remove every sync pair
        let mut i = 0;
        while i + 1 < v.len() {
            if is_sync_pair(v[i], v[i + 1]) {
                v[i + 1] = 0x00;
            }
            i += 1;
        }
        if g.kind % 6 == 5 {
            v.push(0xFF);
        } else if v.last() == Some(&0xFF) && g.kind % 6 == 1 {
            // keep kind 1 free of a trailing FF so that joins are sync-free for any successor
            *v.last_mut().unwrap() = 0x7F;
        }
    }
    v
}

pub struct Built {
    pub bytes: Vec<u8>,
    /// offset of each written frame in `bytes`
    pub offsets: Vec<usize>,
    pub frames: Vec<Vec<u8>>,
    pub pcms: Vec<Pcm>,
    pub garbage_has_sync: bool,
    pub any_garbage: bool,
}

pub fn build(c: &GarbageCase) -> Result<Built, String> {
    let (buf, spans, pcms) = write_stream(&c.stream)?;
    let frames: Vec<Vec<u8>> = spans.iter().map(|(o, l)| buf[*o..o + l].to_vec()).collect();
    let mut bytes = vec![];
    let mut offsets = vec![];
    let mut garbage_has_sync = false;
    let mut any_garbage = false;
    let none = Garbage { kind: 0, len: 0, seed: 0 };
    for (i, f) in frames.iter().enumerate() {
        let g = make_garbage(c.garbage.get(i).unwrap_or(&none), &frames);
        if !g.is_empty() {
            any_garbage = true;
        }
        // sync inside the garbage, or across the join with the preceding bytes
        if has_sync(&g) || (!g.is_empty() && !bytes.is_empty() && is_sync_pair(*bytes.last().unwrap(), g[0])) {
            garbage_has_sync = true;
        }
        bytes.extend_from_slice(&g);
        offsets.push(bytes.len());
        bytes.extend_from_slice(f);
    }
    let g = make_garbage(c.garbage.get(frames.len()).unwrap_or(&none), &frames);
    if !g.is_empty() {
        any_garbage = true;
        if has_sync(&g) || is_sync_pair(*bytes.last().unwrap_or(&0), g[0]) {
            garbage_has_sync = true;
        }
    }
    bytes.extend_from_slice(&g);
    Ok(Built { bytes, offsets, frames, pcms, garbage_has_sync, any_garbage })
}

pub fn splits_for(c: &GarbageCase, b: &Built) -> Vec<usize> {
    match c.split_mode % 5 {
        0 => vec![],
        1 => b.offsets.iter().map(|o| o + 1).collect(),
        2 => (1..b.bytes.len()).collect(),
        3 => {
            let mut r = Rng(c.split_seed as u64 + 17);
            let n = 1 + r.below(12) as usize;
            (0..n).map(|_| 1 + r.below(b.bytes.len().max(2) as u64 - 1) as usize).collect()
        }
        _ => b.offsets.clone(),
    }
}

pub struct StreamRead;

impl Engine for StreamRead {
    type Case = GarbageCase;
    fn name(&self) -> &'static str {
        "stream-reader"
    }
    fn check(&self, c: &GarbageCase) -> Outcome {
        let mut out = Outcome::new();
        let b = match guarded(|| build(c)) {
            Err(p) => {
                out.fails.push(Fail::panic("stream-write-panic", &p));
                return out;
            }
            Ok(Err(e)) => {
                out.fail(format!("stream-write:{}", strip_digits(&e)), e);
                return out;
            }
            Ok(Ok(b)) => b,
        };
        out.label(if !b.any_garbage {
            "clean-concatenation"
        } else if b.garbage_has_sync {
            "garbage-with-sync-pattern"
        } else {
            "garbage-sync-free"
        });
        for g in &c.garbage {
            out.label(match g.kind % 6 {
                0 => "g:none",
                1 => "g:random-sync-free",
                2 => "g:ff-rich",
                3 => "g:sync-lookalikes",
                4 => "g:truncated-frame",
                _ => "g:ends-in-ff",
            });
        }
        let param_change = b.pcms.windows(2).any(|w| w[0].rate != w[1].rate || w[0].bps != w[1].bps || w[0].channels != w[1].channels);
        if param_change {
            out.label("parameter-change-between-frames");
        }
        let splits = splits_for(c, &b);
        out.label(match c.split_mode % 5 {
            0 => "split:none",
            1 => "split:inside-every-sync",
            2 => "split:one-byte-buffers",
            3 => "split:random",
            _ => "split:at-frame-starts",
        });
        if c.interrupt_at.is_some() {
            out.label("interrupted-once");
        }
        out.nontrivial = (param_change && c.split_mode % 5 == 1) || c.garbage.iter().zip(0..b.frames.len()).any(|(g, _)| g.kind % 6 == 3 || g.kind % 6 == 5);
        let mut src = SplitBuf::new(b.bytes.clone(), splits);
        src.interrupt_at = c.interrupt_at.map(|k| k as u64);
        type Got = (Vec<i32>, u32, u8, u32);
        let r = guarded(|| -> Result<Vec<Result<Got, String>>, String> {
            let mut rd = FlacStreamReader::new(src);
            let mut got = vec![];
            let mut calls = 0usize;
            loop {
                calls += 1;
                if calls > b.bytes.len() + 16 {
                    return Err("read() called more often than the stream has bytes without reaching the end".into());
                }
                match rd.read() {
                    Ok(f) => got.push(Ok((f.samples.to_vec(), f.sample_rate, f.channels, f.bits_per_sample))),
                    Err(flac_codec::Error::Io(e)) if e.kind() == std::io::ErrorKind::UnexpectedEof => break,
                    Err(e) => got.push(Err(e.to_string())),
                }
            }
            Ok(got)
        });
        let got = match r {
            Err(p) => {
                out.fails.push(Fail::panic("stream-read-panic", &p));
                return out;
            }
            Ok(Err(e)) => {
                out.fail("no-end-of-stream", e);
                return out;
            }
            Ok(Ok(g)) => g,
        };
        let want: Vec<Got> = b.pcms.iter().map(|p| (interleave(&p.data), p.rate, p.channels, p.bps as u32)).collect();
        let oks: Vec<&Got> = got.iter().filter_map(|g| g.as_ref().ok()).collect();
        let errs = got.iter().filter(|g| g.is_err()).count();
        // (3) every returned frame is a written one, in order
        let mut next = 0usize;
        let mut matched = 0usize;
        let mut in_order = true;
        for f in &oks {
            match (next..want.len()).find(|j| want[*j] == **f) {
                Some(j) => {
                    next = j + 1;
                    matched += 1;
                }
                None => in_order = false,
            }
        }
        if !in_order {
            // Not simply a subsequence of the written frames. Garbage that contains sync patterns
            // (e.g. a truncated copy of a frame) can combine with the bytes that follow it into a frame
            // the format itself defines; the reader is right to return it, at the price of the written
            // frame whose first bytes it used. So judge against every checksum-valid frame the
            // independent parser finds at any offset of the byte stream, in offset order.
            let mut defined: Vec<Got> = vec![];
            for off in 0..b.bytes.len() {
                if b.bytes[off] == 0xFF {
                    if let Ok((fi, ch)) = refdec::decode_frame(&b.bytes, off, None, &Cfg::LENIENT) {
                        defined.push((interleave(&ch), fi.rate, ch.len() as u8, fi.bps as u32));
                    }
                }
            }
            let mut k = 0usize;
            let mut explained = true;
            matched = 0;
            for f in &oks {
                match (k..defined.len()).find(|j| defined[*j].0 == f.0 && defined[*j].1 == f.1) {
                    Some(j) => {
                        k = j + 1;
                        if want.iter().any(|w| w == *f) {
                            matched += 1;
                        }
                    }
                    None => {
                        explained = false;
                        if want.iter().any(|w| w == *f) {
                            out.fail("frame-out-of-order-or-repeated", format!("a written frame was returned out of order or twice ({} ok, {} err results)", oks.len(), errs));
                        } else {
                            out.fail("fabricated-frame", format!("a returned frame ({} samples, {} Hz, {} ch, {} bit) matches no frame the byte stream defines", f.0.len(), f.1, f.2, f.3));
                        }
                        break;
                    }
                }
            }
            if explained {
                out.label("coincidental-checksum-valid-frame");
            }
        }
        // (2)/(4) without sync-like garbage nothing may be lost and nothing may fail
        if !b.garbage_has_sync && c.interrupt_at.is_none() {
            if matched != want.len() {
                out.fail(
                    if b.any_garbage { "sync-free-garbage-costs-a-frame" } else { "clean-stream-loses-a-frame" },
                    format!("{} frames written, {} returned ({} error results); split mode {}", want.len(), matched, errs, c.split_mode % 5),
                );
            }
            if errs > 0 && !b.any_garbage {
                out.fail("clean-stream-yields-errors", format!("{errs} error results on a clean concatenation"));
            }
        }
        if c.interrupt_at.is_some() && !b.garbage_has_sync && matched != want.len() {
            out.fail("interrupted-read-costs-a-frame", format!("{} frames written, {} returned after one Interrupted error from the source", want.len(), matched));
        }
        out.evals = got.len().max(1) as u64;
        out
    }
    fn sample(&self, c: &GarbageCase) -> serde_json::Value {
        serde_json::json!({"frames": c.stream.frames.iter().map(|f| format!("{}Hz {}ch {}bit x{}", f.recipe.rate, f.recipe.chans.len(), f.recipe.bps, f.recipe.frames)).collect::<Vec<_>>(),
            "garbage": c.garbage, "split_mode": c.split_mode, "interrupt_at": c.interrupt_at})
    }
}

pub fn garbage_strategy() -> BoxedStrategy<Garbage> {
    (prop_oneof![3 => Just(0u8), 2 => Just(1u8), 2 => Just(2u8), 2 => Just(3u8), 1 => Just(4u8), 2 => Just(5u8)], prop_oneof![1u16..8, 1u16..200], any::<u32>())
        .prop_map(|(kind, len, seed)| Garbage { kind, len, seed })
        .boxed()
}

pub fn garbage_case_strategy() -> BoxedStrategy<GarbageCase> {
    (
        stream_case_strategy(5, 120),
        prop_oneof![2 => Just(vec![]), 5 => proptest::collection::vec(garbage_strategy(), 1..=6)],
        0u8..5,
        any::<u32>(),
        prop_oneof![6 => Just(None), 1 => (0u16..40).prop_map(Some)],
    )
        .prop_map(|(stream, garbage, split_mode, split_seed, interrupt_at)| GarbageCase { stream, garbage, split_mode, split_seed, interrupt_at })
        .boxed()
}

pub const RULE: &str = "frame sequences written by FlacStreamWriter with per-frame independent (subset-codable) rate, channels 1-8, depth \
8/12/16/20/24/32 and length; the byte stream is garbage0 frame1 garbage1 ... with garbage classes: none, sync-free random, rich in FF, \
FF F8 / FF F9 look-alikes, truncated copies of real frames, sync-free ending in FF; the source is a BufRead whose fill_buf slices end at \
chosen points: unsplit, split inside every frame's two-byte sync code, one-byte buffers, random, at frame starts; optionally one \
Interrupted error. Oracle: (1) each frame decodes standalone by the independent decoder and uses no STREAMINFO-referencing code \
(stream-writer-conformance engine); (2) a clean concatenation returns every frame's samples and parameters exactly, no error results, \
then EOF; (3) with garbage every Ok frame equals a written frame with a higher index than the previous Ok one, unless the independent \
decoder finds a checksum-valid frame with that content at a non-frame offset (coincidence, counted); (4) without any sync pattern in the \
garbage (also across joins) all frames are returned. Non-trivial = parameter change plus a split inside a sync code, or sync-like / \
FF-terminated garbage directly before a frame.";

pub fn run(ctx: &Ctx) {
    ctx.set_rule(RULE);
    let t = ctx.tier;
    let checked = crate::engine::profile() == "checked";
    ctx.regress(&StreamRead);
    ctx.regress(&StreamConformance);
    let n = match (t, checked) {
        (Tier::Quick, false) => 40_000,
        (Tier::Quick, true) => 15_000,
        (Tier::Thorough, false) => 2_000_000,
        (Tier::Thorough, true) => 500_000,
    };
    ctx.search(&StreamRead, n, garbage_case_strategy);
    ctx.search(&StreamConformance, n / 6, || stream_case_strategy(5, 300));
}

pub fn engines() -> Vec<Box<dyn crate::engine::DynEngine>> {
    vec![Box::new(StreamRead), Box::new(StreamConformance)]
}
