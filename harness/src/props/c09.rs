//! C09 — STREAMINFO and SEEKTABLE written at finalize describe the stream truthfully.

use super::c01::{label_case, strip_digits, EncCase};
use crate::codec::{self, EncErr, Front, NoDrop};
use crate::engine::{Ctx, Engine, Fail, Outcome, Tier};
use crate::iow::{Op, RecWriter, SharedWriter};
use crate::opts::{self, EncOpts, Seek};
use crate::pcm::{self, Pcm, Recipe};
use crate::refdec::{self, Cfg, Decoded};
use crate::util::guarded;
use flac_codec::encode::{FlacSampleWriter, SeekTableInterval, generate_seektable};
use flac_codec::metadata::SeekPoint;
use proptest::prelude::*;
use serde::{Deserialize, Serialize};

#[derive(Serialize, Deserialize, Clone, Debug, Hash, PartialEq, Eq)]
pub struct TruthCase {
    pub enc: EncCase,
    /// junk bytes before the stream (the writer is positioned after them)
    pub prefix_len: u16,
    /// 0: use enc.opts.padding as is; 1..=6: padding = seek-table size + (mode - 4) bytes,
    /// i.e. too small by 3..1, exact (4), ample by 1..2
    pub pad_mode: u8,
    /// 0 = the sink accepts every write in full; n > 0 = it accepts at most n bytes per call
    #[serde(default)]
    pub short_writes: u8,
}

#[derive(Debug, Clone, PartialEq, Eq)]
pub struct Point {
    pub sample: u64,
    pub offset: u64,
    pub len: u16,
}

/// parses the SEEKTABLE (if any) from an independently decoded file
pub fn seektable_of(d: &Decoded, bytes: &[u8]) -> Option<Vec<Option<Point>>> {
    let (_, off, len) = d.blocks.iter().find(|(ty, _, _)| *ty == 3)?;
    let b = &bytes[*off..off + len];
    let mut pts = vec![];
    for c in b.chunks_exact(18) {
        let s = u64::from_be_bytes(c[0..8].try_into().unwrap());
        let o = u64::from_be_bytes(c[8..16].try_into().unwrap());
        let n = u16::from_be_bytes(c[16..18].try_into().unwrap());
        pts.push(if s == u64::MAX { None } else { Some(Point { sample: s, offset: o, len: n }) });
    }
    Some(pts)
}

pub fn check_seektable(d: &Decoded, bytes: &[u8], out: &mut Outcome) -> Option<Vec<Point>> {
    let (_, _, len) = d.blocks.iter().find(|(ty, _, _)| *ty == 3)?;
    if len % 18 != 0 {
        out.fail("seektable-size", format!("SEEKTABLE block of {len} bytes"));
    }
    let pts = seektable_of(d, bytes)?;
    let mut seen_placeholder = false;
    let mut last: Option<u64> = None;
    let mut defined = vec![];
    for p in &pts {
        match p {
            None => seen_placeholder = true,
            Some(p) => {
                if seen_placeholder {
                    out.fail("seektable-placeholder-not-last", format!("defined point {p:?} after a placeholder"));
                }
                if let Some(l) = last {
                    if p.sample <= l {
                        out.fail("seektable-not-ascending", format!("point {p:?} after sample {l}"));
                    }
                }
                last = Some(p.sample);
                match d.frames.binary_search_by(|f| f.first_sample.cmp(&p.sample)).ok().map(|i| &d.frames[i]) {
                    None => out.fail("seekpoint-not-a-frame-start", format!("{p:?}: no frame starts at that sample")),
                    Some(f) => {
                        if (f.offset - d.first_frame) as u64 != p.offset {
                            out.fail("seekpoint-wrong-offset", format!("{p:?}: that frame is at byte {} from the first frame", f.offset - d.first_frame));
                        }
                        if f.bs != p.len as u32 {
                            out.fail("seekpoint-wrong-length", format!("{p:?}: that frame has {} samples", f.bs));
                        }
                    }
                }
                defined.push(p.clone());
            }
        }
    }
    if !pts.is_empty() {
        out.label("has-seektable");
    }
    if seen_placeholder {
        out.label("seektable-placeholders-left");
    }
    Some(defined)
}

pub struct Truth {
    pub name: &'static str,
}

/// capacity of one SEEKTABLE block
pub const MAX_SEEKPOINTS: usize = ((1 << 24) - 1) / 18;

pub fn seek_table_size(frames: usize, bs: usize, rate: u32, seek: &Seek) -> usize {
    let nframes = frames.div_ceil(bs);
    let pts = match seek {
        Seek::None => 0,
        Seek::Frames(n) => nframes.div_ceil((*n).max(1) as usize),
        Seek::Seconds(s) => {
            let step = (*s as u64 * rate as u64).max(1);
            ((frames as u64).div_ceil(step) as usize).min(nframes)
        }
        Seek::Default => {
            let step = (10 * rate as u64).max(1);
            ((frames as u64).div_ceil(step) as usize).min(nframes)
        }
    };
    4 + 18 * pts
}

impl Engine for Truth {
    type Case = TruthCase;
    fn name(&self) -> &'static str {
        self.name
    }
    fn check(&self, c: &TruthCase) -> Outcome {
        let mut out = Outcome::new();
        let pcm = c.enc.recipe.expand();
        label_case(&pcm, &c.enc, &mut out);
        let mut o = c.enc.opts.clone();
        if c.pad_mode > 0 {
            let ts = seek_table_size(pcm.frames(), o.block_size as usize, pcm.rate, &o.seek);
            o.default_padding = false;
            o.padding = Some((ts as i64 + c.pad_mode as i64 - 4).max(1) as u32);
            out.label(match c.pad_mode {
                1..=3 => "padding:too-small-for-table",
                4 => "padding:exact-fit",
                _ => "padding:ample-by-1-2",
            });
        }
        let prefix: Vec<u8> = (0..c.prefix_len).map(|i| (i as u8).wrapping_mul(37) ^ 0x5A).collect();
        if !prefix.is_empty() {
            out.label("stream-not-at-offset-0");
        }
        let _ = (&NoDrop::new(0u8), std::marker::PhantomData::<FlacSampleWriter<std::io::Cursor<Vec<u8>>>>);
        let start = prefix.len();
        let total = if o.declare_total { Some(codec::declared_total(&pcm, c.enc.front)) } else { None };
        // run A stops before finalize: it tells where finalize begins in the operation log
        // (the encoder is deterministic, so run B issues the same operations up to that point)
        let sink = || {
            let mut w = RecWriter::with_prefix(&prefix);
            w.max_write = c.short_writes as usize;
            w
        };
        if c.short_writes > 0 {
            out.label("sink-makes-short-writes");
        }
        let sw_a = SharedWriter::new(sink());
        // the state of the sink when every write call has returned, before the writer is dropped
        // (dropping a writer finalizes it)
        let at_mark: std::rc::Rc<std::cell::RefCell<Option<RecWriter>>> = Default::default();
        let ra = {
            let (slot, sink) = (at_mark.clone(), sw_a.clone());
            codec::with_unfinalized_hook(Box::new(move || *slot.borrow_mut() = Some(sink.snapshot())), || {
                guarded(|| codec::encode_full(sw_a.clone(), &pcm, &o, c.enc.front, &c.enc.chunks, total, &[], 0, false))
            })
        };
        let before = at_mark.borrow_mut().take().unwrap_or_else(|| sw_a.snapshot());
        let sw = SharedWriter::new(sink());
        let r = guarded(|| codec::encode_full(sw.clone(), &pcm, &o, c.enc.front, &c.enc.chunks, total, &[], 0, true));
        let (mark_ops, mark_len) = match (ra, r) {
            (Err(p), _) | (_, Err(p)) => {
                out.fails.push(Fail::panic("encode-panic", &p));
                return out;
            }
            (_, Ok(Err(EncErr::Options(e)))) | (Ok(Err(EncErr::Options(e))), _) => {
                let _ = e;
                out.label("options-refused");
                return out;
            }
            (_, Ok(Err(e))) | (Ok(Err(e)), _) => {
                out.fail(format!("encode-error:{}:{}", e.stage(), strip_digits(e.text())), format!("{e:?}"));
                return out;
            }
            (Ok(Ok(())), Ok(Ok(()))) => (before.ops.len(), before.data.len()),
        };
        {
            let a = &before;
            let b = sw.0.borrow();
            if b.ops.len() < mark_ops || a.ops[..mark_ops] != b.ops[..mark_ops] {
                out.fail("nondeterministic-write-sequence", "two identical encodes issued different operations before finalize");
                return out;
            }
        }
        let rec = sw.snapshot();
        // junk prefix intact
        if rec.data[..start] != prefix[..] {
            out.fail("prefix-overwritten", "bytes before the stream start were modified");
        }
        let file = &rec.data[start..];
        // independent view of the finished file
        let d = match refdec::decode_file(file, &Cfg::STRICT) {
            Err(e) => {
                out.fail(format!("nonconforming:{}", strip_digits(&e)), format!("independent strict validator: {e}"));
                return out;
            }
            Ok(d) => d,
        };
        // STREAMINFO truth (min/max frame size and MD5 are part of the strict validation above when non-zero)
        if d.info.total != pcm.frames() as u64 {
            out.fail("streaminfo-total", format!("total {} != {}", d.info.total, pcm.frames()));
        }
        if d.info.channels != pcm.channels || d.info.rate != pcm.rate || d.info.bps != pcm.bps {
            out.fail("streaminfo-params", format!("{:?}", d.info));
        }
        if d.info.min_bs != o.block_size || d.info.max_bs != o.block_size {
            out.fail("streaminfo-blocksize", format!("{}..{} != {}", d.info.min_bs, d.info.max_bs, o.block_size));
        }
        if d.info.min_fs == 0 || d.info.max_fs == 0 {
            out.fail("streaminfo-framesize-missing", format!("min/max frame size {} / {}", d.info.min_fs, d.info.max_fs));
        }
        if d.md5_ok != Some(true) {
            out.fail("streaminfo-md5", format!("MD5 state {:?}", d.md5_ok));
        }
        if d.pcm != pcm.data {
            out.fail("independent-decode-mismatch", "audio differs");
        }
        // finalize may append the final (short) frame and rewrite the metadata region; whatever
        // seeks it uses, no write may touch the audio frames that were already out, they must still
        // be where they were, and the output must end where the appended frames end
        let first_frame_abs = (start + d.first_frame) as u64;
        let end_before = mark_len as u64;
        {
            let a = &before.data;
            let lo = (first_frame_abs as usize).min(a.len());
            if a.len() > rec.data.len() || a[lo..] != rec.data[lo..a.len()] {
                out.fail("finalize-changed-audio", format!("frame bytes {lo}..{} present before finalize differ afterwards", a.len()));
            }
            match refdec::decode_partial(&a[start.min(a.len())..], &Cfg::LENIENT) {
                Ok((da, _)) if !da.frames.is_empty() && (start + da.first_frame) as u64 != first_frame_abs => {
                    out.fail("finalize-moved-first-frame", format!("first frame at {} before finalize, at {first_frame_abs} after", start + da.first_frame));
                }
                _ => {}
            }
        }
        let mut end_so_far = end_before;
        let mut rewrote = false;
        for op in &rec.ops[mark_ops..] {
            if let Op::Write { at, len } = op {
                let (lo, hi) = (*at, *at + *len as u64);
                if *len == 0 {
                    continue;
                }
                if lo >= start as u64 && hi <= first_frame_abs {
                    rewrote = true;
                } else if lo == end_so_far {
                    end_so_far = hi;
                } else {
                    out.fail(
                        "finalize-writes-outside-metadata",
                        format!("finalize wrote {len} bytes at offset {at}; metadata occupies {start}..{first_frame_abs}, audio written so far ends at {end_so_far}"),
                    );
                    break;
                }
            }
        }
        if rewrote {
            out.label("header-rewritten-at-finalize");
        }
        if rec.data.len() as u64 != end_so_far {
            out.fail("finalize-changed-length", format!("output is {} bytes, frames end at {end_so_far}", rec.data.len()));
        }
        // seek table
        let defined = check_seektable(&d, file, &mut out);
        if let Some(defined) = &defined {
            let interval = match o.seek {
                Seek::Frames(n) => Some(SeekTableInterval::Frames((n as usize).max(1).try_into().unwrap())),
                Seek::Seconds(s) => Some(SeekTableInterval::Seconds(s.max(1).try_into().unwrap())),
                Seek::Default => Some(SeekTableInterval::default()),
                Seek::None => None,
            };
            if let Some(iv) = interval {
                match guarded(|| generate_seektable(std::io::Cursor::new(file), iv)) {
                    Err(p) => out.fails.push(Fail::panic("generate-seektable-panic", &p)),
                    Ok(Err(e)) => out.fail(format!("generate-seektable-error:{}", strip_digits(&e.to_string())), e.to_string()),
                    Ok(Ok(t)) => {
                        let regen: Vec<Point> = t
                            .points
                            .iter()
                            .filter_map(|p| match p {
                                SeekPoint::Defined { sample_offset, byte_offset, frame_samples } => {
                                    Some(Point { sample: *sample_offset, offset: *byte_offset, len: *frame_samples })
                                }
                                SeekPoint::Placeholder => None,
                            })
                            .collect();
                        // same defined points; only the format's capacity (2^24 / 18 points) may cut the written table short
                        let n = defined.len().min(regen.len());
                        if regen.len() >= 16 {
                            out.label("seektable>=16-points");
                        }
                        if defined[..n] != regen[..n] || (defined.len() != regen.len() && regen.len() <= MAX_SEEKPOINTS) {
                            out.fail("regenerated-seektable-differs", format!("written {:?} vs regenerated {:?}", &defined[..defined.len().min(4)], &regen[..regen.len().min(4)]));
                        }
                    }
                }
            }
            if d.frames.len() >= 3 && !defined.is_empty() {
                out.nontrivial = true;
            }
        }
        if o.seek == Seek::None && defined.is_some() {
            out.fail("unrequested-seektable", "a SEEKTABLE was written although none was requested");
        }
        out
    }
    fn sample(&self, c: &TruthCase) -> serde_json::Value {
        serde_json::json!({"frames": c.enc.recipe.frames, "channels": c.enc.recipe.chans.len(), "bps": c.enc.recipe.bps, "rate": c.enc.recipe.rate,
            "opts": c.enc.opts, "prefix_len": c.prefix_len, "pad_mode": c.pad_mode})
    }
}

pub fn truth_strategy() -> BoxedStrategy<TruthCase> {
    let seek = prop_oneof![
        1 => Just(Seek::None),
        3 => Just(Seek::Frames(1)),
        3 => (2u32..6).prop_map(Seek::Frames),
        2 => (1u8..4).prop_map(Seek::Seconds),
        1 => Just(Seek::Default),
    ];
    (
        opts::opts_strategy(opts::small_block_strategy()),
        seek,
        prop_oneof![2 => Just(0u16), 1 => 1u16..300],
        prop_oneof![3 => Just(0u8), 4 => 1u8..=6],
        super::c01::chunks_strategy(),
        proptest::sample::select(&[8u32, 16, 40, 100, 44100, 0][..]),
        super::c01::front_strategy(),
        prop_oneof![3 => Just(0u8), 1 => 1u8..=9, 1 => 10u8..=255],
    )
        .prop_flat_map(|(mut o, seek, prefix_len, pad_mode, chunks, rate, front, short_writes)| {
            o.seek = seek;
            let frames = opts::frames_strategy(o.block_size, 8);
            pcm::recipe_strategy(pcm::channels_strategy(), frames).prop_map(move |mut recipe: Recipe| {
                recipe.rate = rate;
                TruthCase {
                    enc: EncCase { recipe, opts: o.clone(), front, chunks: chunks.clone() },
                    prefix_len,
                    pad_mode,
                    short_writes,
                }
            })
        })
        .boxed()
}

/// Long streams (66 000 .. 200 000 samples, cheap content) with larger blocks and a seconds-based
/// seek table: remaining-sample counts beyond 16 bits, many seek points.
pub fn long_truth_strategy() -> BoxedStrategy<TruthCase> {
    use crate::pcm::{ChanRecipe, Kind};
    (
        proptest::sample::select(&[256u16, 1024, 1152, 4096, 4608, 16384][..]),
        prop_oneof![3 => (1u8..4).prop_map(Seek::Seconds), 1 => (1u32..6).prop_map(Seek::Frames), 1 => Just(Seek::Default)],
        proptest::sample::select(&[1000u32, 4000, 8000, 16000, 44100, 700][..]),
        66_000u32..200_000,
        any::<bool>(),
        prop_oneof![2 => Just(0u8), 2 => 1u8..=6],
        prop_oneof![3 => Just(0u8), 1 => 1u8..=9],
        super::c01::front_strategy(),
        any::<u64>(),
        prop_oneof![Just(Kind::Const { which: 3 }), Just(Kind::Square { run: 7 }), (0u8..3).prop_map(|amp| Kind::Noise { amp })],
    )
        .prop_map(|(bs, seek, rate, frames, declare_total, pad_mode, short_writes, front, seed, kind)| {
            let mut o = EncOpts::small(bs);
            o.seek = seek;
            o.declare_total = declare_total;
            o.max_lpc = None;
            o.default_padding = true;
            TruthCase {
                enc: EncCase {
                    recipe: Recipe { bps: 8, rate, frames, seed, chans: vec![ChanRecipe { kind, wasted: 0, relation: 0 }], seg: 0, ms_mix: 0 },
                    opts: o,
                    front,
                    chunks: vec![],
                },
                prefix_len: 0,
                pad_mode,
                short_writes,
            }
        })
        .boxed()
}

/// More frames than a seek table can hold (932 068 > 2^24 / 18), one point per frame, undeclared total.
pub fn huge_case() -> TruthCase {
    use crate::pcm::{ChanRecipe, Kind};
    let mut o = EncOpts::small(16);
    o.seek = Seek::Frames(1);
    o.declare_total = false;
    o.default_padding = false;
    o.padding = Some((1 << 24) - 1);
    o.max_lpc = None;
    TruthCase {
        enc: EncCase {
            recipe: Recipe {
                bps: 8,
                rate: 8000,
                frames: 932_068 * 16,
                seed: 1,
                chans: vec![ChanRecipe { kind: Kind::Const { which: 0 }, wasted: 0, relation: 0 }],
                seg: 0, ms_mix: 0,
            },
            opts: o,
            front: Front::Samples,
            chunks: vec![],
        },
        prefix_len: 0,
        pad_mode: 0,
        short_writes: 0,
    }
}

pub const RULE: &str = "cases = C01's PCM x options space crossed with seek-table policy (off / every n frames / every n seconds / default), \
total declared or discovered at finalize, padding absent / too small by 1-3 / exact / ample by 1-2 / arbitrary, stream starting after a \
junk prefix, extra metadata blocks, a sink that accepts every write in full or only up to n bytes per call; long streams (66 000 - 200 000 samples, blocks up to 16384) with seconds-based tables; plus streams of 932 068 / 932 100 frames (more than a seek table can hold) with one point per frame / per two frames and an \
undeclared total. Oracle (independent parser over a recording writer): STREAMINFO total/channels/rate/depth/block size/min-max frame \
size/MD5 are true; every defined seek point names first sample, offset and length of a real frame, ascending, placeholders last; every write \
issued during finalize either stays inside the metadata region or appends at the end of the audio (whatever seeks are used), the frame bytes \
that were out before finalize are unchanged and the first frame has not moved, the output ends where the frames end, the junk prefix is intact; \
generate_seektable(file, same interval) yields the same defined points, in the same number unless the format's capacity cuts the written table. Non-trivial = >= 3 frames and a seek table with defined points. \
Distinct = digest of the case.";

pub fn run(ctx: &Ctx) {
    ctx.set_rule(RULE);
    let t = ctx.tier;
    let eng = Truth { name: "header-truth" };
    ctx.regress_named(&eng, &["header-truth-long"]);
    let n = match t {
        Tier::Quick => 200_000,
        Tier::Thorough => 5_000_000,
    };
    ctx.search(&eng, n, truth_strategy);
    let long = Truth { name: "header-truth-long" };
    let n = match t {
        Tier::Quick => 3_000,
        Tier::Thorough => 100_000,
    };
    ctx.search(&long, n, long_truth_strategy);
    let huge = Truth { name: "more-frames-than-seekpoints" };
    // and with a decimating policy: more frames than a table can hold, one point per 2 frames
    let mut huge2 = huge_case();
    huge2.enc.opts.seek = Seek::Frames(2);
    huge2.enc.recipe.frames = 932_100 * 16;
    ctx.run_cases(&huge, &[huge_case(), huge2]);
    let _: Option<Pcm> = None;
}

pub fn engines() -> Vec<Box<dyn crate::engine::DynEngine>> {
    vec![
        Box::new(Truth { name: "header-truth" }),
        Box::new(Truth { name: "header-truth-long" }),
        Box::new(Truth { name: "more-frames-than-seekpoints" }),
    ]
}
