//! C07 — readers deliver the stream exactly once, in order, however it is consumed.

use super::c06::{FileSpec, HistCase, Op, ReaderSel, file_strategy, op_strategy, reader_strategy, run_history};
use crate::codec::{self, READERS};
use crate::engine::{Ctx, Engine, Fail, Outcome, Tier};
use crate::iow::SegReader;
use crate::opts::Seek;
use crate::util::guarded;
use proptest::prelude::*;
use serde::{Deserialize, Serialize};

pub struct ReadHistory {
    pub name: &'static str,
}

impl Engine for ReadHistory {
    type Case = HistCase;
    fn name(&self) -> &'static str {
        self.name
    }
    fn check(&self, c: &HistCase) -> Outcome {
        let mut out = Outcome::new();
        out.evals = 0;
        out.label(match c.reader {
            ReaderSel::ByteLE => "reader:byte-le",
            ReaderSel::ByteBE => "reader:byte-be",
            ReaderSel::Sample => "reader:sample",
            ReaderSel::Channel => "reader:channel",
        });
        if !c.segs.is_empty() {
            out.label("segmented-source");
        }
        let mut partial_then_fill = false;
        let mut last_consume_partial = false;
        for o in &c.ops {
            match o {
                Op::Consume { frac } => last_consume_partial = *frac < 250,
                Op::Fill | Op::Read { .. } => {
                    if last_consume_partial {
                        partial_then_fill = true;
                    }
                }
                _ => {}
            }
        }
        if partial_then_fill {
            out.label("partial-consume-then-refill");
        }
        out.nontrivial = partial_then_fill || !c.segs.is_empty();
        run_history(c, false, &mut out);
        out
    }
}

/// Whole-stream comparison of every front-end under a given source segmentation.
#[derive(Serialize, Deserialize, Clone, Debug, Hash, PartialEq, Eq)]
pub struct SplitCase {
    pub file: FileSpec,
    pub segs: Vec<u16>,
    pub read_size: u16,
}

pub struct SplitSweep;

impl Engine for SplitSweep {
    type Case = SplitCase;
    fn name(&self) -> &'static str {
        "source-split-sweep"
    }
    fn check(&self, c: &SplitCase) -> Outcome {
        let mut out = Outcome::new();
        let bf = match guarded(|| super::c06::build_file(&c.file)) {
            Ok(Ok(b)) => b,
            _ => {
                out.fail("file-build", "cannot build the file");
                return out;
            }
        };
        let want = bf.pcm.interleaved();
        out.nontrivial = true;
        for kind in READERS {
            let src = SegReader::new(bf.bytes.clone()).with_segs(c.segs.iter().map(|s| *s as usize).collect());
            match guarded(|| codec::decode_with(src, kind, c.read_size.max(1) as usize)) {
                Err(p) => out.fails.push(Fail::panic("panic", &p)),
                Ok(Err(e)) => out.fail(format!("open-error:{kind:?}"), format!("segmentation {:?}: {e}", c.segs)),
                Ok(Ok(d)) => {
                    if let Some(e) = d.err {
                        out.fail(format!("decode-error-under-segmentation:{kind:?}"), format!("segmentation {:?}: {e}", c.segs));
                    } else if d.samples != want {
                        out.fail(format!("segmentation-changes-output:{kind:?}"), format!("segmentation {:?}: {} samples instead of {}", c.segs, d.samples.len(), want.len()));
                    }
                }
            }
        }
        out.evals = READERS.len() as u64;
        out
    }
}

pub const RULE: &str = "histories over {read(n), fill_buf, consume(k<=avail), then optionally into_iter() or read_to_end() for the rest (sample reader)} (no seeks) on each of the four buffered front-ends, opened with \
the non-seekable constructor over a source that hands out data in chosen segments; the history is continued until the reader signals \
the end and then polled up to 3 more times. Oracle: the concatenation of everything returned equals the decoded PCM exactly once (byte \
readers: serialised at ceil(bps/8) bytes in the selected order; channel reader: de-interleaved), every poll after the end signals the \
end again. Plus: for small files every 2-way split point of the source and 1-byte reads, through all six front-ends. Non-trivial = a \
partial consume followed by a refill, or a segmented source. Distinct = digest of the case.";

pub fn run(ctx: &Ctx) {
    ctx.set_rule(RULE);
    let t = ctx.tier;
    let rh = ReadHistory { name: "read-history" };
    ctx.regress(&rh);
    ctx.regress(&SplitSweep);
    let n = match t {
        Tier::Quick => 300_000,
        Tier::Thorough => 6_000_000,
    };
    ctx.search(&rh, n, || {
        (
            file_strategy(),
            reader_strategy(),
            proptest::collection::vec(op_strategy(false), 1..40),
            prop_oneof![2 => Just(vec![]), 1 => Just(vec![1u16]), 2 => proptest::collection::vec(1u16..64, 1..5)],
            0u8..=3,
            prop_oneof![3 => Just(0u8), 1 => Just(1u8), 1 => Just(2u8)],
            prop_oneof![3 => Just(0u16), 1 => 1u16..300],
        )
            .prop_map(|(file, reader, ops, segs, extra_polls, tail, prefix)| HistCase {
                file,
                reader,
                ops,
                segs,
                extra_polls,
                iterate_tail: tail == 1,
                read_to_end_tail: tail == 2,
                prefix,
            })
            .boxed()
    });
    // every split point of small files
    let nfiles = match t {
        Tier::Quick => 40,
        Tier::Thorough => 400,
    };
    let mut files = vec![];
    for i in 0..nfiles as u64 {
        let f = if i % 3 == 2 {
            FileSpec::Gen { seed: ctx.seed.wrapping_add(i * 77), max_frames: 3, max_bs: 24 }
        } else {
            FileSpec::Enc {
                seed: ctx.seed.wrapping_add(i),
                channels: 1 + (i % 3) as u8,
                bps: [8u8, 16, 24, 12][(i % 4) as usize],
                rate: 44100,
                bs: 16 + (i % 5) as u16,
                frames: 40 + (i % 7) as u32,
                seek: if i % 2 == 0 { Seek::None } else { Seek::Frames(1) },
            }
        };
        if let Ok(Ok(b)) = guarded(|| super::c06::build_file(&f)) {
            if b.bytes.len() < 700 {
                files.push((f, b.bytes.len()));
            }
        }
    }
    let mut index = vec![];
    let mut total = 0u64;
    for (i, (_, len)) in files.iter().enumerate() {
        index.push((total, i));
        total += *len as u64 + 1;
    }
    ctx.enumerate(&SplitSweep, total, |k| {
        let j = index.partition_point(|(o, _)| *o <= k) - 1;
        let (o, i) = index[j];
        let r = (k - o) as u16;
        let segs = if r == 0 { vec![1u16] } else { vec![r, 60000] };
        Some(SplitCase { file: files[i].0.clone(), segs, read_size: 1 + (r % 97) })
    });
    ctx.set_exhaustive("source-split-sweep", true, &format!("every 2-way split point plus all-1-byte reads of {} small files, all six front-ends", files.len()));
}

pub fn engines() -> Vec<Box<dyn crate::engine::DynEngine>> {
    vec![Box::new(ReadHistory { name: "read-history" }), Box::new(SplitSweep)]
}
