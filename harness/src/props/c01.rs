//! C01 — encoding is lossless: every finalized stream decodes to exactly its input.

use crate::codec::{self, DecOut, EncErr, FRONTS, Front, READERS, ReaderKind};
use crate::engine::{Ctx, Engine, Fail, Outcome, Tier};
use crate::opts::{self, EncOpts, Seek, Win};
use crate::pcm::{self, ChanRecipe, Kind, Pcm, Recipe};
use crate::refdec;
use crate::util::guarded;
use proptest::prelude::*;
use serde::{Deserialize, Serialize};

#[derive(Serialize, Deserialize, Clone, Debug, Hash, PartialEq, Eq)]
pub struct EncCase {
    pub recipe: Recipe,
    pub opts: EncOpts,
    pub front: Front,
    pub chunks: Vec<usize>,
}

pub fn strip_digits(s: &str) -> String {
    let mut m = String::new();
    let mut last = false;
    for ch in s.chars() {
        if ch.is_ascii_digit() {
            if !last {
                m.push('#');
            }
            last = true;
        } else {
            last = false;
            m.push(ch);
        }
    }
    m
}

/// Classification of an encoded file by the independent parser (lenient): labels + nontrivial.
pub fn classify_encoded(bytes: &[u8], opts: &EncOpts, out: &mut Outcome) {
    if let Ok((d, _)) = refdec::decode_partial(bytes, &refdec::Cfg::LENIENT) {
        let mut predictive = false;
        for f in &d.frames {
            for s in &f.subframes {
                match s.kind {
                    "CONSTANT" => out.label("sub:constant"),
                    "VERBATIM" => out.label("sub:verbatim"),
                    "FIXED" => {
                        out.label("sub:fixed");
                        if s.order >= 1 {
                            predictive = true;
                        }
                    }
                    "LPC" => {
                        out.label("sub:lpc");
                        predictive = true;
                        if s.order > 12 {
                            out.label("lpc>12");
                        }
                        if s.order >= 25 {
                            out.label("lpc>=25");
                        }
                        out.label(match s.lpc_precision {
                            0..=7 => "lpc-precision<=7",
                            8..=13 => "lpc-precision:8-13",
                            14 => "lpc-precision:14",
                            _ => "lpc-precision:15",
                        });
                        out.label(match s.lpc_shift {
                            0 => "lpc-shift:0",
                            1..=7 => "lpc-shift:1-7",
                            8..=13 => "lpc-shift:8-13",
                            _ => "lpc-shift>=14",
                        });
                        if f.bps + (f.chan_code >= 8) as u8 > 32 {
                            out.label("lpc-on-33-bit-side");
                        }
                    }
                    _ => {}
                }
                if s.wasted > 0 {
                    out.label("wasted");
                }
                if s.part_order > 0 {
                    out.label("partitioned");
                }
                if s.escapes > 0 {
                    out.label("escape");
                }
                if s.method == 1 {
                    out.label("rice2");
                }
            }
            match f.chan_code {
                8 => out.label("left-side"),
                9 => out.label("side-right"),
                10 => out.label("mid-side"),
                _ => {}
            }
            if matches!(f.rate_code, 12 | 13 | 14) {
                out.label("rate:uncommon-code");
            }
            if f.rate_code == 0 {
                out.label("rate:streaminfo");
            }
            if matches!(f.bs_code, 6 | 7) {
                out.label("bs:uncommon-code");
            }
        }
        let maxo = opts.max_lpc.unwrap_or(4).max(4) as u32;
        let short_tail = d.frames.last().map(|f| f.bs <= 2 * maxo).unwrap_or(false);
        if short_tail {
            out.label("short-final-block");
        }
        if d.frames.len() >= 2 {
            out.label("multi-frame");
        }
        out.nontrivial = predictive || short_tail;
    }
}

pub fn compare_decoded(pcm: &Pcm, kind: ReaderKind, r: Result<DecOut, String>, out: &mut Outcome) {
    match r {
        Err(e) => out.fail(format!("decode-open-error:{}", strip_digits(&e)), format!("{kind:?}: cannot open: {e}")),
        Ok(d) => {
            if let Some(e) = &d.err {
                out.fail(format!("decode-error:{}", strip_digits(e)), format!("{kind:?}: {e} after {} samples", d.samples.len()));
                return;
            }
            if d.channels != pcm.channels {
                out.fail("meta-mismatch:channels", format!("{kind:?}: channels {} != {}", d.channels, pcm.channels));
            }
            if d.bps != pcm.bps as u32 {
                out.fail("meta-mismatch:bps", format!("{kind:?}: bps {} != {}", d.bps, pcm.bps));
            }
            if d.rate != pcm.rate {
                out.fail("meta-mismatch:rate", format!("{kind:?}: rate {} != {}", d.rate, pcm.rate));
            }
            if d.total != Some(pcm.frames() as u64) {
                out.fail("meta-mismatch:total", format!("{kind:?}: total {:?} != {}", d.total, pcm.frames()));
            }
            let want = pcm.interleaved();
            if d.samples != want {
                let first = d.samples.iter().zip(&want).position(|(a, b)| a != b);
                out.fail(
                    format!("sample-mismatch:{kind:?}"),
                    format!(
                        "{kind:?}: decoded {} samples, expected {}; first difference at {:?}",
                        d.samples.len(),
                        want.len(),
                        first
                    ),
                );
            }
        }
    }
}

pub struct Roundtrip {
    pub name: &'static str,
    /// readers to use per case (all six, or a cheap subset)
    pub readers: &'static [ReaderKind],
}

impl Engine for Roundtrip {
    type Case = EncCase;
    fn name(&self) -> &'static str {
        self.name
    }
    fn check(&self, c: &EncCase) -> Outcome {
        let mut out = Outcome::new();
        let pcm = c.recipe.expand();
        label_case(&pcm, c, &mut out);
        let enc = guarded(|| codec::encode_vec(&pcm, &c.opts, c.front, &c.chunks));
        let bytes = match enc {
            Err(p) => {
                out.fails.push(Fail::panic("encode-panic", &p));
                return out;
            }
            Ok(Err(EncErr::Options(e))) => {
                // C01 is about accepted options; that documented values are accepted is C15's claim
                let _ = e;
                out.label("options-refused");
                return out;
            }
            Ok(Err(EncErr::Options(_))) => {
                out.label("options-refused");
                return out;
            }
            Ok(Err(e)) => {
                out.fail(format!("encode-error:{}:{}", e.stage(), strip_digits(e.text())), format!("{:?}", e));
                return out;
            }
            Ok(Ok(b)) => b,
        };
        classify_encoded(&bytes, &c.opts, &mut out);
        for kind in self.readers {
            let dg = crate::util::digest(c) as usize;
            let rs = 1 + (dg % 5000);
            // one case in four is read back from a source that hands its data out in pieces (as a
            // BufReader over a file does at its buffer boundaries)
            let segs: Vec<usize> = match (dg >> 16) % 8 {
                0 => vec![1],
                1 => vec![1 + (dg >> 20) % 97, 1 + (dg >> 28) % 13, 8192],
                _ => vec![],
            };
            if !segs.is_empty() {
                out.label("decoded-from-fragmenting-source");
            }
            let src = crate::iow::SegReader::new(bytes.clone()).with_segs(segs);
            match guarded(|| codec::decode_with(src, *kind, rs)) {
                Err(p) => out.fails.push(Fail::panic("decode-panic", &p)),
                Ok(r) => compare_decoded(&pcm, *kind, r, &mut out),
            }
        }
        out.evals = self.readers.len() as u64;
        out
    }
    fn sample(&self, c: &EncCase) -> serde_json::Value {
        serde_json::json!({
            "bps": c.recipe.bps, "rate": c.recipe.rate, "frames": c.recipe.frames, "channels": c.recipe.chans.len(),
            "kinds": c.recipe.chans.iter().map(|x| format!("{:?}/w{}/r{}", x.kind, x.wasted, x.relation)).collect::<Vec<_>>(),
            "opts": c.opts, "front": c.front, "chunks": c.chunks.iter().take(8).collect::<Vec<_>>(),
        })
    }
}

pub fn label_case(pcm: &Pcm, c: &EncCase, out: &mut Outcome) {
    out.label(match pcm.channels {
        1 => "ch:1",
        2 => "ch:2",
        _ => "ch:3-8",
    });
    out.label(match pcm.bps {
        1..=3 => "bps:1-3",
        4..=8 => "bps:4-8",
        9..=16 => "bps:9-16",
        17..=24 => "bps:17-24",
        25..=31 => "bps:25-31",
        _ => "bps:32",
    });
    out.label(match c.front {
        Front::BytesLE => "front:bytes-le",
        Front::BytesBE => "front:bytes-be",
        Front::Samples => "front:samples",
        Front::Channels => "front:channels",
    });
    if c.opts.max_lpc.is_none() {
        out.label("lpc:none");
    } else if c.opts.max_lpc == Some(32) {
        out.label("lpc:32");
    }
    if c.opts.max_part >= 7 {
        out.label("maxpart>=7");
    }
    if !c.opts.declare_total {
        out.label("total:undeclared");
    }
    if pcm.frames() < c.opts.block_size as usize {
        out.label("single-short-block");
    }
}

pub fn front_strategy() -> BoxedStrategy<Front> {
    proptest::sample::select(&FRONTS[..]).boxed()
}

pub fn chunks_strategy() -> BoxedStrategy<Vec<usize>> {
    prop_oneof![
        3 => Just(vec![]),
        2 => proptest::collection::vec(1usize..200, 1..6),
        1 => proptest::collection::vec(0usize..5000, 1..4),
        1 => Just(vec![1usize]),
    ]
    .boxed()
}

/// The main C01 case strategy: small blocks (fast) or any block size.
pub fn enc_case_strategy(large: bool, max_blocks: u32) -> BoxedStrategy<EncCase> {
    let block = if large { opts::any_block_strategy() } else { opts::small_block_strategy() };
    (opts::opts_strategy(block), front_strategy(), chunks_strategy())
        .prop_flat_map(move |(o, front, chunks)| {
            let mb = if o.block_size > 5000 { max_blocks.min(1) } else { max_blocks };
            let frames = opts::frames_strategy(o.block_size, mb);
            pcm::recipe_strategy(pcm::channels_strategy(), frames).prop_map(move |recipe| EncCase {
                recipe,
                opts: o.clone(),
                front,
                chunks: chunks.clone(),
            })
        })
        .boxed()
}

/// Music-like cases: tonal/resonant PCM (mid/side-friendly stereo), block sizes 64..4608, LPC on.
pub fn tonal_case_strategy() -> BoxedStrategy<EncCase> {
    let block = prop_oneof![
        5 => proptest::sample::select(&[192u16, 256, 512, 576, 1024, 1152, 2048, 2304, 4096, 4608][..]),
        2 => 64u16..=4608,
    ];
    let lpc = prop_oneof![1 => Just(None), 2 => Just(Some(8u8)), 2 => Just(Some(12u8)), 2 => Just(Some(32u8)), 3 => (1u8..=32).prop_map(Some)];
    (block, lpc, 0u32..=8, prop_oneof![4 => Just(true), 1 => Just(false)], any::<bool>(), opts::window_strategy(), any::<bool>(), front_strategy(), chunks_strategy())
        .prop_flat_map(|(block_size, max_lpc, max_part, mid_side, fast_corr, window, declare_total, front, chunks)| {
            let o = EncOpts { block_size, max_lpc, max_part, mid_side, fast_corr, window, declare_total, ..EncOpts::small(block_size) };
            let bs = block_size as u32;
            let frames = prop_oneof![3 => Just(bs), 2 => (bs / 2).max(1)..=bs, 2 => bs..=2 * bs, 1 => 1u32..=bs].boxed();
            pcm::tonal_recipe_strategy(frames).prop_map(move |recipe| EncCase { recipe, opts: o.clone(), front, chunks: chunks.clone() })
        })
        .boxed()
}

// ---------------------------------------------------------------------------------------------
// exhaustive tiny vectors

#[derive(Serialize, Deserialize, Clone, Debug, Hash, PartialEq, Eq)]
pub struct TinyCase {
    /// alphabet is -radius..=radius
    pub radius: i32,
    pub samples: Vec<i32>,
    /// 0: mono 16-bit defaults; 1: mono 16-bit LPC-32 / partition order 15;
    /// 2: stereo 8-bit (even/odd samples), defaults; 3: mono 16-bit no LPC, partition order 2
    pub config: u8,
}

pub fn tiny_from_index(radius: i32, len: u32, mut idx: u64, config: u8) -> TinyCase {
    let k = (2 * radius + 1) as u64;
    let mut v = Vec::with_capacity(len as usize);
    for _ in 0..len {
        v.push((idx % k) as i32 - radius);
        idx /= k;
    }
    TinyCase { radius, samples: v, config }
}

pub fn tiny_opts(config: u8) -> EncOpts {
    let mut o = EncOpts::small(16);
    match config {
        1 => {
            o.max_lpc = Some(32);
            o.max_part = 15;
        }
        3 => {
            o.max_lpc = None;
            o.max_part = 2;
        }
        _ => {}
    }
    o
}

pub fn tiny_pcm(c: &TinyCase) -> Pcm {
    if c.config == 2 {
        let n = c.samples.len() / 2;
        let l: Vec<i32> = (0..n).map(|i| c.samples[2 * i]).collect();
        let r: Vec<i32> = (0..n).map(|i| c.samples[2 * i + 1]).collect();
        Pcm { channels: 2, bps: 8, rate: 44100, data: vec![l, r] }
    } else {
        Pcm { channels: 1, bps: 16, rate: 44100, data: vec![c.samples.clone()] }
    }
}

pub struct Tiny;

impl Engine for Tiny {
    type Case = TinyCase;
    fn name(&self) -> &'static str {
        "tiny-exhaustive"
    }
    fn check(&self, c: &TinyCase) -> Outcome {
        let mut out = Outcome::new();
        let pcm = tiny_pcm(c);
        if pcm.frames() == 0 {
            return out;
        }
        let o = tiny_opts(c.config);
        out.label(match c.config {
            0 => "cfg:mono16-default",
            1 => "cfg:mono16-lpc32-po15",
            2 => "cfg:stereo8-default",
            _ => "cfg:mono16-nolpc-po2",
        });
        let bytes = match guarded(|| codec::encode_vec(&pcm, &o, Front::Samples, &[])) {
            Err(p) => {
                out.fails.push(Fail::panic("encode-panic", &p));
                return out;
            }
            Ok(Err(EncErr::Options(_))) => {
                out.label("options-refused");
                return out;
            }
            Ok(Err(e)) => {
                out.fail(format!("encode-error:{}:{}", e.stage(), strip_digits(e.text())), format!("{:?}", e));
                return out;
            }
            Ok(Ok(b)) => b,
        };
        // non-trivial: not all samples equal (so a predictor/residual path ran)
        out.nontrivial = pcm.data.iter().any(|ch| ch.iter().any(|s| *s != ch[0]));
        let kind = if c.samples.len() % 2 == 0 { ReaderKind::Sample } else { ReaderKind::Channel };
        match guarded(|| codec::decode_with(std::io::Cursor::new(&bytes), kind, 64)) {
            Err(p) => out.fails.push(Fail::panic("decode-panic", &p)),
            Ok(r) => compare_decoded(&pcm, kind, r, &mut out),
        }
        out
    }
}

// ---------------------------------------------------------------------------------------------
// every short length x shape x option grid

const SHAPES: usize = 40;

pub fn shape_recipe(shape: usize, len: u32, bps: u8) -> Recipe {
    let full = bps - 1;
    let k = |kind: Kind, wasted: u8| ChanRecipe { kind, wasted, relation: 0 };
    let (chans, seed): (Vec<ChanRecipe>, u64) = match shape {
        0 => (vec![k(Kind::Const { which: 0 }, 0)], 1),
        1 => (vec![k(Kind::Const { which: 1 }, 0)], 2),
        2 => (vec![k(Kind::Const { which: 2 }, 0)], 3),
        3 => (vec![k(Kind::Const { which: 3 }, 0)], 4),
        4 => (vec![k(Kind::Noise { amp: 0 }, 0)], 5),
        5 => (vec![k(Kind::Noise { amp: 1 }, 0)], 6),
        6 => (vec![k(Kind::Noise { amp: 2 }, 0)], 7),
        7 => (vec![k(Kind::Noise { amp: 4 }, 0)], 8),
        8 => (vec![k(Kind::Noise { amp: full / 2 }, 0)], 9),
        9 => (vec![k(Kind::Noise { amp: full }, 0)], 10),
        10 => (vec![k(Kind::Square { run: 1 }, 0)], 11),
        11 => (vec![k(Kind::Square { run: 3 }, 0)], 12),
        12 => (vec![k(Kind::Sines { n: 1, amp: full, noise: 0 }, 0)], 13),
        13 => (vec![k(Kind::Sines { n: 2, amp: full / 2, noise: 1 }, 0)], 14),
        14 => (vec![k(Kind::Sines { n: 3, amp: 6.min(full), noise: 2 }, 0)], 15),
        15 => (vec![k(Kind::Poly { degree: 0, noise: 0 }, 0)], 16),
        16 => (vec![k(Kind::Poly { degree: 1, noise: 0 }, 0)], 17),
        17 => (vec![k(Kind::Poly { degree: 2, noise: 0 }, 0)], 18),
        18 => (vec![k(Kind::Poly { degree: 3, noise: 0 }, 0)], 19),
        19 => (vec![k(Kind::Poly { degree: 4, noise: 0 }, 0)], 20),
        20 => (vec![k(Kind::Poly { degree: 2, noise: 1 }, 0)], 21),
        21 => (vec![k(Kind::Poly { degree: 3, noise: 2 }, 0)], 22),
        22 => (vec![k(Kind::Ar { poles: 2, amp: full }, 0)], 23),
        23 => (vec![k(Kind::Ar { poles: 8, amp: full }, 0)], 24),
        24 => (vec![k(Kind::Ar { poles: 16, amp: full / 2 }, 0)], 25),
        25 => (vec![k(Kind::Impulses { count: 1 }, 0)], 26),
        26 => (vec![k(Kind::Impulses { count: 4 }, 0)], 27),
        27 => (vec![k(Kind::RiceHostile { small: 0, outlier_every: 5 }, 0)], 28),
        28 => (vec![k(Kind::RiceHostile { small: 2, outlier_every: 17 }, 0)], 29),
        29 => (vec![k(Kind::Steps { steps: 3 }, 0)], 30),
        30 => (vec![k(Kind::Noise { amp: 5.min(full) }, 1)], 31),
        31 => (vec![k(Kind::Noise { amp: full }, (bps / 2).max(1).min(full))], 32),
        32 => (vec![k(Kind::Raw { v: vec![3, 4, 1, -2] }, 0)], 33),
        33 => (vec![k(Kind::Raw { v: vec![-2, 0, -1, -2] }, 0)], 34),
        34 => (vec![k(Kind::Raw { v: vec![1, -1] }, 0)], 35),
        // stereo shapes
        35 => (vec![k(Kind::Noise { amp: full }, 0), ChanRecipe { kind: Kind::Const { which: 0 }, wasted: 0, relation: 1 }], 36),
        36 => (vec![k(Kind::Noise { amp: full }, 0), ChanRecipe { kind: Kind::Const { which: 0 }, wasted: 0, relation: 2 }], 37),
        37 => (vec![k(Kind::Sines { n: 2, amp: full, noise: 0 }, 0), ChanRecipe { kind: Kind::Const { which: 0 }, wasted: 0, relation: 3 }], 38),
        38 => (vec![k(Kind::Noise { amp: full }, 0), k(Kind::Noise { amp: full }, 0)], 39),
        _ => (vec![k(Kind::Square { run: 1 }, 0), k(Kind::Square { run: 2 }, 0)], 40),
    };
    Recipe { bps, rate: 44100, frames: len, seed: seed * 7919 + len as u64, chans, seg: 0, ms_mix: 0 }
}

pub fn shortlen_case(i: u64, max_len: u64) -> EncCase {
    let mut i = i;
    let len = (i % max_len) as u32 + 1;
    i /= max_len;
    let shape = (i % SHAPES as u64) as usize;
    i /= SHAPES as u64;
    let bs = [16u16, 32][(i % 2) as usize];
    i /= 2;
    let lpc = [None, Some(4u8), Some(8), Some(32)][(i % 4) as usize];
    i /= 4;
    let po = [0u32, 2, 6, 15][(i % 4) as usize];
    i /= 4;
    let bps = [16u8, 8, 24, 32][(i % 4) as usize];
    let mut o = EncOpts::small(bs);
    o.max_lpc = lpc;
    o.max_part = po;
    o.window = if shape % 3 == 0 { Win::Hann } else { Win::Tukey(0.5f32.to_bits()) };
    o.seek = Seek::None;
    EncCase { recipe: shape_recipe(shape, len, bps), opts: o, front: FRONTS[(len as usize + shape) % 4], chunks: vec![] }
}

pub fn shortlen_total(max_len: u64, depths: u64) -> u64 {
    max_len * SHAPES as u64 * 2 * 4 * 4 * depths
}

// ---------------------------------------------------------------------------------------------

pub const RULE: &str = "cases = (PCM recipe expanded deterministically) x (encoder options) x (writer front-end) x (write chunking); \
each is encoded, then decoded by every reader front-end and compared sample-for-sample and field-for-field. \
Non-trivial = the independent parser finds at least one FIXED(order>=1)/LPC subframe in the file, or the final block \
is no longer than 2 x the maximum predictor order; for the tiny exhaustive engine: the vector is not constant. \
Distinct = SipHash digest of the whole case.";

pub fn run(ctx: &Ctx) {
    ctx.set_rule(RULE);
    ctx.assume("samples fit the declared bit depth; options come from the documented ranges");
    let t = ctx.tier;
    let all = Roundtrip { name: "roundtrip", readers: &READERS };
    ctx.regress_named(&all, &["shortlen-grid", "roundtrip-large", "roundtrip-tonal"]);
    ctx.regress(&Tiny);

    // (a) exhaustive tiny vectors
    let checked = crate::engine::profile() == "checked";
    let plan: Vec<(i32, u32, u8)> = {
        let mut v = vec![];
        let max5 = match (t, checked) {
            (Tier::Quick, false) => 8,
            (Tier::Quick, true) => 6,
            (Tier::Thorough, false) => 10,
            (Tier::Thorough, true) => 8,
        };
        for cfg in [0u8, 1, 3] {
            for len in 1..=max5 {
                v.push((2, len, cfg));
            }
        }
        // stereo 8-bit: even lengths only (pairs)
        for len in (2..=max5).step_by(2) {
            v.push((2, len, 2));
        }
        let max3 = match (t, checked) {
            (Tier::Quick, false) => 12,
            (Tier::Quick, true) => 9,
            (Tier::Thorough, false) => 14,
            (Tier::Thorough, true) => 12,
        };
        for len in (max5 + 1)..=max3 {
            v.push((1, len, 0));
            v.push((1, len, 1));
        }
        if t == Tier::Thorough {
            for len in 1..=6 {
                v.push((4, len, 0));
                v.push((4, len, 1));
            }
        }
        v
    };
    let mut offsets = vec![];
    let mut total = 0u64;
    for (r, len, cfg) in &plan {
        let n = ((2 * r + 1) as u64).pow(*len);
        offsets.push((total, *r, *len, *cfg));
        total += n;
    }
    ctx.enumerate(&Tiny, total, |i| {
        let k = offsets.partition_point(|(o, _, _, _)| *o <= i) - 1;
        let (o, r, len, cfg) = offsets[k];
        Some(tiny_from_index(r, len, i - o, cfg))
    });
    ctx.set_exhaustive(
        "tiny-exhaustive",
        true,
        &format!("all vectors over the listed alphabets/lengths: {} (radius,len,config) groups, {} vectors", plan.len(), total),
    );

    // (b) every short length x shapes x option grid
    let short = Roundtrip { name: "shortlen-grid", readers: &[ReaderKind::Sample, ReaderKind::ByteLE, ReaderKind::Channel] };
    let (max_len, depths) = match (t, checked) {
        (Tier::Quick, false) => (64, 2),
        (Tier::Quick, true) => (64, 1),
        (Tier::Thorough, _) => (256, 4),
    };
    ctx.enumerate(&short, shortlen_total(max_len, depths), |i| Some(shortlen_case(i, max_len)));
    ctx.set_exhaustive("shortlen-grid", true, "full grid: lengths x 40 shapes x block {16,32} x LPC {none,4,8,32} x partition order {0,2,6,15} x depths");

    // (c) random product, small blocks
    let n_small = match (t, checked) {
        (Tier::Quick, false) => 24_000,
        (Tier::Quick, true) => 8_000,
        (Tier::Thorough, false) => 1_500_000,
        (Tier::Thorough, true) => 400_000,
    };
    ctx.search(&all, n_small, || enc_case_strategy(false, 5));

    // (d) random product, any block size (few, large)
    let large = Roundtrip { name: "roundtrip-large", readers: &[ReaderKind::SampleToEnd, ReaderKind::ByteBE] };
    let n_large = match (t, checked) {
        (Tier::Quick, false) => 1_200,
        (Tier::Quick, true) => 300,
        (Tier::Thorough, false) => 60_000,
        (Tier::Thorough, true) => 12_000,
    };
    ctx.search(&large, n_large, || enc_case_strategy(true, 2));

    // (e) music-like material: LPC subframes of every order, mid/side frames
    let tonal = Roundtrip { name: "roundtrip-tonal", readers: &[ReaderKind::Sample, ReaderKind::ByteLE] };
    let n_tonal = match (t, checked) {
        (Tier::Quick, false) => 6_000,
        (Tier::Quick, true) => 1_500,
        (Tier::Thorough, false) => 300_000,
        (Tier::Thorough, true) => 60_000,
    };
    ctx.search(&tonal, n_tonal, tonal_case_strategy);
}

pub fn engines() -> Vec<Box<dyn crate::engine::DynEngine>> {
    vec![
        Box::new(Roundtrip { name: "roundtrip", readers: &READERS }),
        Box::new(Roundtrip { name: "shortlen-grid", readers: &READERS }),
        Box::new(Roundtrip { name: "roundtrip-large", readers: &READERS }),
        Box::new(Roundtrip { name: "roundtrip-tonal", readers: &READERS }),
        Box::new(Tiny),
    ]
}
