//! Generic runner: sharded proptest search with shrinking, indexed (exhaustive) enumeration,
//! statistics, known-finding handling, replay files and per-run evidence parts.

use crate::util::{PanicInfo, digest, fnv_str, guarded, panic_sig};
use proptest::strategy::{BoxedStrategy, Strategy, ValueTree};
use proptest::test_runner::{Config, RngAlgorithm, RngSeed, TestCaseError, TestError, TestRunner};
use serde::Serialize;
use serde::de::DeserializeOwned;
use serde_json::{Value, json};
use std::collections::{BTreeMap, HashSet};
use std::sync::Mutex;
use std::sync::atomic::{AtomicU64, Ordering};

#[derive(Clone, Copy, Debug, PartialEq, Eq)]
pub enum Tier {
    Quick,
    Thorough,
}

impl Tier {
    pub fn pick<T>(self, q: T, t: T) -> T {
        match self {
            Tier::Quick => q,
            Tier::Thorough => t,
        }
    }
    pub fn name(self) -> &'static str {
        match self {
            Tier::Quick => "quick",
            Tier::Thorough => "thorough",
        }
    }
}

pub fn profile() -> &'static str {
    if cfg!(debug_assertions) { "checked" } else { "release" }
}

#[derive(Debug, Clone)]
pub struct Fail {
    /// root-cause signature (no line numbers, no case-specific values)
    pub sig: String,
    /// human-readable detail
    pub msg: String,
}

impl Fail {
    pub fn new(sig: impl Into<String>, msg: impl Into<String>) -> Self {
        Fail { sig: sig.into(), msg: msg.into() }
    }
    pub fn panic(clause: &str, p: &PanicInfo) -> Self {
        Fail {
            sig: format!("{}:{}", clause, panic_sig(p)),
            msg: format!("panic at {}:{}: {}", p.file, p.line, p.msg),
        }
    }
}

#[derive(Debug, Default)]
pub struct Outcome {
    pub labels: Vec<&'static str>,
    pub nontrivial: bool,
    pub fails: Vec<Fail>,
    /// number of elementary checks this case performed (defaults to 1)
    pub evals: u64,
    /// harness self-check failures (two harness components disagree): exit 2, never a violation
    pub infra: Vec<String>,
}

impl Outcome {
    pub fn new() -> Self {
        Outcome { labels: vec![], nontrivial: false, fails: vec![], evals: 1, infra: vec![] }
    }
    pub fn label(&mut self, l: &'static str) {
        if !self.labels.contains(&l) {
            self.labels.push(l);
        }
    }
    pub fn fail(&mut self, sig: impl Into<String>, msg: impl Into<String>) {
        self.fails.push(Fail::new(sig, msg));
    }
}

/// Runs the check with unwinding caught: a panic in harness code itself is reported as
/// an infrastructure failure signature (exit 2 path), panics inside crate calls should be
/// caught closer to the call with `guarded`.
pub trait Engine: Sync {
    type Case: Serialize + DeserializeOwned + std::fmt::Debug + Clone + Send + Sync + std::hash::Hash + 'static;
    fn name(&self) -> &'static str;
    fn check(&self, case: &Self::Case) -> Outcome;
    /// sample representation for evidence (defaults to the serialised case, truncated)
    fn sample(&self, case: &Self::Case) -> Value {
        truncate_json(serde_json::to_value(case).unwrap_or(Value::Null), 48)
    }
}

pub fn truncate_json(v: Value, max: usize) -> Value {
    match v {
        Value::Array(a) => {
            let n = a.len();
            let mut out: Vec<Value> = a.into_iter().take(max).map(|x| truncate_json(x, max)).collect();
            if n > max {
                out.push(Value::String(format!("... {} more", n - max)));
            }
            Value::Array(out)
        }
        Value::Object(o) => Value::Object(o.into_iter().map(|(k, v)| (k, truncate_json(v, max))).collect()),
        Value::String(s) if s.len() > 400 => Value::String(format!("{}... ({} chars)", &s[..400], s.len())),
        v => v,
    }
}

#[derive(Debug, Clone, Serialize)]
pub struct ViolationRec {
    pub engine: String,
    pub sig: String,
    pub msg: String,
    pub replay: String,
    pub known: bool,
}

#[derive(Default)]
struct EngineStats {
    evaluations: u64,
    cases: u64,
    labels: BTreeMap<String, u64>,
    nontrivial: HashSet<u64>,
    samples: Vec<Value>,
    sample_labels: HashSet<String>,
    known_hits: BTreeMap<String, u64>,
    excluded: BTreeMap<String, u64>,
    exhaustive: Option<bool>,
    note: String,
}

pub struct Ctx {
    pub prop: String,
    pub tier: Tier,
    pub seed: u64,
    pub threads: usize,
    pub known: Vec<KnownFinding>,
    pub strict: bool,
    /// run only the engine with this name (debugging aid)
    pub only: Option<String>,
    pub trace: bool,
    /// scale every case count by this factor (debugging aid)
    pub scale: f64,
    stats: Mutex<BTreeMap<String, EngineStats>>,
    pub violations: Mutex<Vec<ViolationRec>>,
    pub infra_errors: Mutex<Vec<String>>,
    pub rule: Mutex<String>,
    pub assumptions: Mutex<Vec<String>>,
    pub extra: Mutex<BTreeMap<String, Value>>,
    pub heartbeat: AtomicU64,
}

#[derive(Debug, Clone, serde::Deserialize)]
pub struct KnownFinding {
    pub status: String,
    pub property: String,
    #[serde(default)]
    pub signature: String,
    #[serde(default)]
    pub what: String,
    #[serde(default)]
    pub commit: String,
}

pub fn load_known(path: &str) -> Vec<KnownFinding> {
    match std::fs::read_to_string(path) {
        Ok(s) => serde_json::from_str::<Value>(&s)
            .ok()
            .and_then(|v| v.get("findings").cloned())
            .and_then(|v| serde_json::from_value::<Vec<KnownFinding>>(v).ok())
            .unwrap_or_default(),
        Err(_) => vec![],
    }
}

const MAX_VIOLATIONS_PER_ENGINE: usize = 6;

impl Ctx {
    pub fn new(prop: &str, tier: Tier, seed: u64, threads: usize, known: Vec<KnownFinding>) -> Self {
        let _ = crate::util::PROP.set(prop.to_string());
        Ctx {
            prop: prop.to_string(),
            tier,
            seed,
            threads,
            known,
            strict: false,
            only: None,
            trace: std::env::var("FV_TRACE").is_ok(),
            scale: 1.0,
            stats: Mutex::new(BTreeMap::new()),
            violations: Mutex::new(vec![]),
            infra_errors: Mutex::new(vec![]),
            rule: Mutex::new(String::new()),
            assumptions: Mutex::new(vec![]),
            extra: Mutex::new(BTreeMap::new()),
            heartbeat: AtomicU64::new(0),
        }
    }

    pub fn set_rule(&self, r: &str) {
        *self.rule.lock().unwrap() = r.to_string();
    }
    pub fn assume(&self, a: &str) {
        self.assumptions.lock().unwrap().push(a.to_string());
    }
    pub fn extra(&self, k: &str, v: Value) {
        self.extra.lock().unwrap().insert(k.to_string(), v);
    }
    pub fn infra(&self, m: impl Into<String>) {
        self.infra_errors.lock().unwrap().push(m.into());
    }

    fn is_known(&self, sig: &str) -> bool {
        !self.strict
            && self
                .known
                .iter()
                .any(|k| k.status == "known" && k.property == self.prop && k.signature == sig)
    }

    fn merge_stats(&self, eng: &str, l: EngineStats) {
        let mut st = self.stats.lock().unwrap();
        let s = st.entry(eng.to_string()).or_default();
        s.evaluations += l.evaluations;
        s.cases += l.cases;
        for (k, v) in l.labels {
            *s.labels.entry(k).or_insert(0) += v;
        }
        s.nontrivial.extend(l.nontrivial);
        for smp in l.samples {
            if s.samples.len() < 16 {
                s.samples.push(smp);
            }
        }
        for (k, v) in l.known_hits {
            *s.known_hits.entry(k).or_insert(0) += v;
        }
        for (k, v) in l.excluded {
            *s.excluded.entry(k).or_insert(0) += v;
        }
    }

    fn record<E: Engine>(&self, s: &mut EngineStats, eng: &E, case: &E::Case, out: &Outcome) {
        if !out.infra.is_empty() {
            let mut ie = self.infra_errors.lock().unwrap();
            if ie.len() < 20 {
                for m in &out.infra {
                    ie.push(format!("{}: {} (case {})", eng.name(), m, serde_json::to_string(case).unwrap_or_default().chars().take(300).collect::<String>()));
                }
            }
        }
        s.evaluations += out.evals.max(1);
        s.cases += 1;
        for l in &out.labels {
            *s.labels.entry(l.to_string()).or_insert(0) += 1;
        }
        if out.nontrivial {
            s.nontrivial.insert(digest(case));
        }
        // keep one sample per not-yet-seen label, up to 6 per shard, nontrivial ones preferred
        if s.samples.len() < 6 {
            let fresh = out.labels.iter().any(|l| !s.sample_labels.contains(*l));
            if (fresh && (out.nontrivial || s.samples.len() < 3)) || s.samples.is_empty() {
                for l in &out.labels {
                    s.sample_labels.insert(l.to_string());
                }
                let mut v = eng.sample(case);
                if let Value::Object(o) = &mut v {
                    o.insert("_labels".into(), json!(out.labels));
                }
                s.samples.push(v);
            }
        }
    }

    fn note_known(&self, s: &mut EngineStats, sig: &str) {
        *s.known_hits.entry(sig.to_string()).or_insert(0) += 1;
    }

    fn note_excluded(&self, s: &mut EngineStats, sig: &str) {
        *s.excluded.entry(sig.to_string()).or_insert(0) += 1;
    }

    pub fn set_exhaustive(&self, eng: &str, ex: bool, note: &str) {
        let mut st = self.stats.lock().unwrap();
        let s = st.entry(eng.to_string()).or_default();
        s.exhaustive = Some(ex);
        s.note = note.to_string();
    }

    fn report_violation<E: Engine>(&self, eng: &E, case: &E::Case, f: &Fail) {
        let mut v = self.violations.lock().unwrap();
        if v.iter().any(|x| x.sig == f.sig) {
            return;
        }
        let dir = format!("{}/replays/{}", crate::util::root(), self.prop);
        let _ = std::fs::create_dir_all(&dir);
        let path = format!("{}/{}-{:016x}.json", dir, eng.name(), fnv_str(&f.sig));
        let body = json!({
            "property": self.prop,
            "engine": eng.name(),
            "profile": profile(),
            "signature": f.sig,
            "message": f.msg,
            "case": serde_json::to_value(case).unwrap_or(Value::Null),
        });
        let _ = std::fs::write(&path, serde_json::to_string_pretty(&body).unwrap());
        v.push(ViolationRec {
            engine: eng.name().to_string(),
            sig: f.sig.clone(),
            msg: f.msg.clone(),
            replay: path,
            known: false,
        });
    }

    /// Evaluate one case; returns the first *reportable* failure (not known, not excluded).
    fn eval<E: Engine>(
        &self,
        st: &mut EngineStats,
        eng: &E,
        case: &E::Case,
        excluded: &Mutex<HashSet<String>>,
        count: bool,
    ) -> Option<Fail> {
        self.heartbeat.fetch_add(1, Ordering::Relaxed);
        crate::util::set_current(eng.name(), case);
        if self.trace {
            eprintln!("TRACE {} {}", eng.name(), serde_json::to_string(case).unwrap_or_default());
        }
        let t0 = std::time::Instant::now();
        let res = guarded(|| eng.check(case));
        if self.trace && t0.elapsed().as_millis() > 50 {
            eprintln!("SLOW {}ms {} {}", t0.elapsed().as_millis(), eng.name(), serde_json::to_string(case).unwrap_or_default());
        }
        crate::util::clear_current();
        let out = match res {
            Ok(o) => o,
            Err(p) => {
                // a panic that escaped to here came from harness code or from an unguarded
                // crate call: report as its own signature so it is visible, never silently pass
                let mut o = Outcome::new();
                o.fails.push(Fail::panic("unguarded", &p));
                o
            }
        };
        if count {
            self.record(st, eng, case, &out);
        }
        let mut first = None;
        for f in out.fails {
            if self.is_known(&f.sig) {
                if count {
                    self.note_known(st, &f.sig);
                }
                continue;
            }
            if excluded.lock().unwrap().contains(&f.sig) {
                if count {
                    self.note_excluded(st, &f.sig);
                }
                continue;
            }
            if first.is_none() {
                first = Some(f);
            }
        }
        first
    }

    /// Sharded proptest search. `cases` is the total number of generated cases.
    fn skip(&self, name: &str) -> bool {
        matches!(&self.only, Some(o) if o != name)
    }

    pub fn search<E: Engine>(&self, eng: &E, cases: u64, strat: impl Fn() -> BoxedStrategy<E::Case> + Sync) {
        if self.skip(eng.name()) {
            return;
        }
        let cases = ((cases as f64) * self.scale).ceil() as u64;
        let excluded: Mutex<HashSet<String>> = Mutex::new(HashSet::new());
        let shards = self.threads.max(1) as u64;
        let base = self.seed ^ fnv_str(&self.prop).rotate_left(17) ^ fnv_str(eng.name());
        std::thread::scope(|sc| {
            for shard in 0..shards {
                let excluded = &excluded;
                let strat = &strat;
                sc.spawn(move || {
                    let local = std::cell::RefCell::new(EngineStats::default());
                    let mut remaining = cases / shards + if shard < cases % shards { 1 } else { 0 };
                    let mut round = 0u64;
                    while remaining > 0 {
                        if self.violations.lock().unwrap().iter().filter(|v| v.engine == eng.name()).count()
                            >= MAX_VIOLATIONS_PER_ENGINE
                        {
                            break;
                        }
                        let seed = base
                            .wrapping_add(shard.wrapping_mul(0x9E3779B97F4A7C15))
                            .wrapping_add(round.wrapping_mul(0xD1B54A32D192ED03));
                        let mut seed_bytes = [0u8; 32];
                        for (i, b) in seed_bytes.iter_mut().enumerate() {
                            *b = (seed.rotate_left((i as u32 * 7) % 64) >> ((i % 8) * 8)) as u8 ^ (i as u8).wrapping_mul(31);
                        }
                        let _ = RngSeed::Random; // (kept for documentation: we always use a fixed seed)
                        let cfg = Config {
                            cases: remaining.min(u32::MAX as u64) as u32,
                            failure_persistence: None,
                            max_shrink_iters: 600,
                            max_local_rejects: 1 << 20,
                            max_global_rejects: 1 << 20,
                            verbose: 0,
                            ..Config::default()
                        };
                        let rng = proptest::test_runner::TestRng::from_seed(RngAlgorithm::ChaCha, &seed_bytes);
                        let mut runner = TestRunner::new_with_rng(cfg, rng);
                        let done = std::cell::Cell::new(0u64);
                        let target: std::cell::RefCell<Option<String>> = std::cell::RefCell::new(None);
                        let s = strat();
                        let res = runner.run(&s, |case| {
                            let shrinking = target.borrow().is_some();
                            match self.eval(&mut local.borrow_mut(), eng, &case, excluded, !shrinking) {
                                None => {
                                    if !shrinking {
                                        done.set(done.get() + 1);
                                    }
                                    Ok(())
                                }
                                Some(f) => {
                                    if shrinking {
                                        if target.borrow().as_deref() == Some(f.sig.as_str()) {
                                            Err(TestCaseError::fail(f.sig))
                                        } else {
                                            Ok(())
                                        }
                                    } else {
                                        done.set(done.get() + 1);
                                        *target.borrow_mut() = Some(f.sig.clone());
                                        Err(TestCaseError::fail(f.sig))
                                    }
                                }
                            }
                        });
                        match res {
                            Ok(()) => {
                                break;
                            }
                            Err(TestError::Fail(_, minimal)) => {
                                let sig = target.borrow().clone().unwrap_or_default();
                                // recompute the failure on the minimal case for the message
                                let out = guarded(|| eng.check(&minimal)).unwrap_or_else(|p| {
                                    let mut o = Outcome::new();
                                    o.fails.push(Fail::panic("unguarded", &p));
                                    o
                                });
                                let f = out
                                    .fails
                                    .into_iter()
                                    .find(|f| f.sig == sig)
                                    .unwrap_or(Fail::new(sig.clone(), "failure did not reproduce on the shrunk case (flaky?)"));
                                excluded.lock().unwrap().insert(sig.clone());
                                self.report_violation(eng, &minimal, &f);
                                remaining = remaining.saturating_sub(done.get().max(1));
                                round += 1;
                            }
                            Err(TestError::Abort(r)) => {
                                self.infra(format!("{}: proptest aborted: {}", eng.name(), r));
                                break;
                            }
                        }
                    }
                    self.merge_stats(eng.name(), local.into_inner());
                });
            }
        });
    }

    /// Deterministic enumeration of `total` cases, `make(i)` building case i. Reports, per
    /// signature, the failing case with the smallest index.
    pub fn enumerate<E: Engine>(&self, eng: &E, total: u64, make: impl Fn(u64) -> Option<E::Case> + Sync) {
        if self.skip(eng.name()) {
            return;
        }
        let excluded: Mutex<HashSet<String>> = Mutex::new(HashSet::new());
        let best: Mutex<BTreeMap<String, (u64, E::Case, Fail)>> = Mutex::new(BTreeMap::new());
        let next = AtomicU64::new(0);
        let chunk = (total / (self.threads as u64 * 64)).clamp(1, 4096);
        std::thread::scope(|sc| {
            for _ in 0..self.threads.max(1) {
                sc.spawn(|| {
                    let mut local = EngineStats::default();
                    loop {
                        let start = next.fetch_add(chunk, Ordering::Relaxed);
                        if start >= total {
                            break;
                        }
                        for i in start..(start + chunk).min(total) {
                            let Some(case) = make(i) else { continue };
                            // evaluate everything; collect all non-known failures
                            self.heartbeat.fetch_add(1, Ordering::Relaxed);
                            crate::util::set_current(eng.name(), &case);
                            let res = guarded(|| eng.check(&case));
                            crate::util::clear_current();
                            let out = match res {
                                Ok(o) => o,
                                Err(p) => {
                                    let mut o = Outcome::new();
                                    o.fails.push(Fail::panic("unguarded", &p));
                                    o
                                }
                            };
                            self.record(&mut local, eng, &case, &out);
                            for f in out.fails {
                                if self.is_known(&f.sig) {
                                    self.note_known(&mut local, &f.sig);
                                    continue;
                                }
                                let mut b = best.lock().unwrap();
                                if b.len() >= MAX_VIOLATIONS_PER_ENGINE && !b.contains_key(&f.sig) {
                                    continue;
                                }
                                match b.get(&f.sig) {
                                    Some((j, _, _)) if *j <= i => {
                                        drop(b);
                                        self.note_excluded(&mut local, &f.sig);
                                    }
                                    _ => {
                                        b.insert(f.sig.clone(), (i, case.clone(), f));
                                    }
                                }
                            }
                        }
                    }
                    self.merge_stats(eng.name(), local);
                });
            }
        });
        let _ = excluded;
        for (_, (_, case, f)) in best.into_inner().unwrap() {
            self.report_violation(eng, &case, &f);
        }
    }

    /// Run explicit cases (regression files, hand-written boundary cases).
    pub fn run_cases<E: Engine>(&self, eng: &E, cases: &[E::Case]) {
        let n = cases.len() as u64;
        self.enumerate(eng, n, |i| Some(cases[i as usize].clone()));
    }

    /// Replays committed regression cases for this engine from /verif/regress/<prop>/<engine>*.json
    pub fn regress<E: Engine>(&self, eng: &E) {
        self.regress_named(eng, &[]);
    }

    /// As `regress`, also taking files recorded under other instance names of the same engine type.
    pub fn regress_named<E: Engine>(&self, eng: &E, also: &[&str]) {
        let dir = format!("{}/regress/{}", crate::util::root(), self.prop);
        let Ok(rd) = std::fs::read_dir(&dir) else { return };
        let mut files: Vec<_> = rd.flatten().map(|e| e.path()).collect();
        files.sort();
        let mut cases = vec![];
        for p in files {
            let name = p.file_name().unwrap().to_string_lossy().to_string();
            if !name.ends_with(".json") {
                continue;
            }
            let Ok(s) = std::fs::read_to_string(&p) else { continue };
            let Ok(v) = serde_json::from_str::<Value>(&s) else { continue };
            let en = v.get("engine").and_then(|e| e.as_str()).unwrap_or("");
            if en != eng.name() && !also.contains(&en) {
                continue;
            }
            match serde_json::from_value::<E::Case>(v.get("case").cloned().unwrap_or(Value::Null)) {
                Ok(c) => cases.push(c),
                Err(e) => self.infra(format!("regress file {} does not parse: {}", name, e)),
            }
        }
        if !cases.is_empty() {
            self.run_cases(eng, &cases);
        }
    }

    pub fn part_json(&self, wall_s: f64) -> Value {
        let st = self.stats.lock().unwrap();
        let mut engines = serde_json::Map::new();
        let mut evaluations = 0u64;
        let mut nontrivial = 0u64;
        let mut samples: Vec<Value> = vec![];
        let mut all_exh = !st.is_empty();
        for (name, s) in st.iter() {
            evaluations += s.evaluations;
            nontrivial += s.nontrivial.len() as u64;
            for smp in s.samples.iter().take(4) {
                let mut v = smp.clone();
                if let Value::Object(o) = &mut v {
                    o.insert("_engine".into(), json!(name));
                }
                samples.push(v);
            }
            if s.exhaustive != Some(true) {
                all_exh = false;
            }
            engines.insert(
                name.clone(),
                json!({
                    "cases": s.cases,
                    "evaluations": s.evaluations,
                    "distinct_nontrivial": s.nontrivial.len(),
                    "classes": s.labels,
                    "known_finding_hits": s.known_hits,
                    "excluded_signature_hits": s.excluded,
                    "exhaustive": s.exhaustive,
                    "note": s.note,
                    "samples": s.samples,
                }),
            );
        }
        json!({
            "property_id": self.prop,
            "tier": self.tier.name(),
            "seed": self.seed,
            "profile": profile(),
            "evaluations": evaluations,
            "distinct_nontrivial": nontrivial,
            "rule": *self.rule.lock().unwrap(),
            "samples": samples,
            "engines": engines,
            "all_exhaustive": all_exh,
            "assumptions": *self.assumptions.lock().unwrap(),
            "extra": *self.extra.lock().unwrap(),
            "violations": *self.violations.lock().unwrap(),
            "infra_errors": *self.infra_errors.lock().unwrap(),
            "wall_s": wall_s,
        })
    }
}

/// A type-erased engine for replay.
pub trait DynEngine: Sync {
    fn dyn_name(&self) -> &'static str;
    fn replay(&self, case: Value) -> Result<Outcome, String>;
}

impl<E: Engine> DynEngine for E {
    fn dyn_name(&self) -> &'static str {
        self.name()
    }
    fn replay(&self, case: Value) -> Result<Outcome, String> {
        let c: E::Case = serde_json::from_value(case).map_err(|e| e.to_string())?;
        Ok(match guarded(|| self.check(&c)) {
            Ok(o) => o,
            Err(p) => {
                let mut o = Outcome::new();
                o.fails.push(Fail::panic("unguarded", &p));
                o
            }
        })
    }
}

/// Generates one value from a strategy with a fixed seed (for deterministic corpora).
pub fn sample_strategy<T: std::fmt::Debug>(s: &impl Strategy<Value = T>, seed: u64, n: usize) -> Vec<T> {
    let mut sb = [0u8; 32];
    for (i, b) in sb.iter_mut().enumerate() {
        *b = (seed.rotate_left(i as u32 * 5) >> ((i % 8) * 8)) as u8 ^ (i as u8).wrapping_mul(131);
    }
    let rng = proptest::test_runner::TestRng::from_seed(RngAlgorithm::ChaCha, &sb);
    let mut runner = TestRunner::new_with_rng(Config { failure_persistence: None, ..Config::default() }, rng);
    (0..n).filter_map(|_| s.new_tree(&mut runner).ok().map(|t| t.current())).collect()
}
