//! I/O wrappers: recording writer, fault injection, chunked/segmented readers, hang detection.

use std::io::{self, BufRead, Read, Seek, SeekFrom, Write};

pub const HANG_LIMIT: u64 = 200_000;
pub const HANG_MSG: &str = "FV_HANG: reader polled too often after end of data (or asked for the same unconsumed buffer over and over)";

#[derive(Debug, Clone, PartialEq, Eq)]
pub enum Op {
    Write { at: u64, len: usize },
    Seek { to: u64 },
    Flush,
}

/// `Write + Seek (+ Read)` over a Vec that logs every operation.
#[derive(Debug, Clone, Default)]
pub struct RecWriter {
    pub data: Vec<u8>,
    pub pos: u64,
    pub ops: Vec<Op>,
    /// snapshot lengths: data.len() after each op
    pub log_ops: bool,
    /// 0 = accept everything offered; n > 0 = accept at most n bytes per write call (short writes)
    pub max_write: usize,
}

impl RecWriter {
    pub fn new() -> Self {
        RecWriter { data: vec![], pos: 0, ops: vec![], log_ops: true, max_write: 0 }
    }
    pub fn with_prefix(prefix: &[u8]) -> Self {
        RecWriter { data: prefix.to_vec(), pos: prefix.len() as u64, ops: vec![], log_ops: true, max_write: 0 }
    }
}

impl Write for RecWriter {
    fn write(&mut self, buf: &[u8]) -> io::Result<usize> {
        let buf = if self.max_write > 0 && buf.len() > self.max_write { &buf[..self.max_write] } else { buf };
        let p = self.pos as usize;
        if self.data.len() < p {
            self.data.resize(p, 0);
        }
        let overlap = (self.data.len() - p).min(buf.len());
        self.data[p..p + overlap].copy_from_slice(&buf[..overlap]);
        self.data.extend_from_slice(&buf[overlap..]);
        if self.log_ops {
            self.ops.push(Op::Write { at: self.pos, len: buf.len() });
        }
        self.pos += buf.len() as u64;
        Ok(buf.len())
    }
    fn flush(&mut self) -> io::Result<()> {
        if self.log_ops {
            self.ops.push(Op::Flush);
        }
        Ok(())
    }
}

impl Seek for RecWriter {
    fn seek(&mut self, s: SeekFrom) -> io::Result<u64> {
        let np: i128 = match s {
            SeekFrom::Start(p) => p as i128,
            SeekFrom::Current(d) => self.pos as i128 + d as i128,
            SeekFrom::End(d) => self.data.len() as i128 + d as i128,
        };
        if np < 0 {
            return Err(io::Error::new(io::ErrorKind::InvalidInput, "negative seek"));
        }
        self.pos = np as u64;
        if self.log_ops && !matches!(s, SeekFrom::Current(0)) {
            self.ops.push(Op::Seek { to: self.pos });
        }
        Ok(self.pos)
    }
}

impl Read for RecWriter {
    fn read(&mut self, buf: &mut [u8]) -> io::Result<usize> {
        let p = (self.pos as usize).min(self.data.len());
        let n = (self.data.len() - p).min(buf.len());
        buf[..n].copy_from_slice(&self.data[p..p + n]);
        self.pos += n as u64;
        Ok(n)
    }
}

// ---------------------------------------------------------------------------------------------

#[derive(Debug, Clone, Copy, PartialEq, Eq, Hash, serde::Serialize, serde::Deserialize)]
pub enum FaultKind {
    /// the n-th operation fails once with ErrorKind::Other, later ones succeed
    Once,
    /// the n-th and every later operation fail
    Forever,
    /// the n-th operation fails once with ErrorKind::Interrupted
    Interrupted,
}

/// Writer that fails at the `fail_at`-th operation (counting writes, flushes and seeks, 0-based).
/// Optionally accepts at most `short` bytes per write call.
#[derive(Debug, Clone)]
pub struct FaultyWriter {
    pub inner: RecWriter,
    pub count: u64,
    pub fail_at: Option<u64>,
    pub kind: FaultKind,
    pub short: Option<usize>,
    pub failed: u64,
    /// index range classification: op index -> kind, recorded for evidence
    pub last_failed_op: Option<&'static str>,
    /// also count (and fail) read calls made through `SharedFaulty`
    pub count_reads: bool,
}

impl FaultyWriter {
    pub fn new(inner: RecWriter, fail_at: Option<u64>, kind: FaultKind, short: Option<usize>) -> Self {
        FaultyWriter { inner, count: 0, fail_at, kind, short, failed: 0, last_failed_op: None, count_reads: false }
    }
    pub fn tick_read(&mut self) -> io::Result<()> {
        self.tick("read")
    }
    fn tick(&mut self, what: &'static str) -> io::Result<()> {
        let i = self.count;
        self.count += 1;
        if let Some(n) = self.fail_at {
            let fail = match self.kind {
                FaultKind::Once | FaultKind::Interrupted => i == n,
                FaultKind::Forever => i >= n,
            };
            if fail {
                self.failed += 1;
                self.last_failed_op = Some(what);
                return Err(match self.kind {
                    FaultKind::Interrupted => io::Error::new(io::ErrorKind::Interrupted, "injected interrupt"),
                    _ => io::Error::other("injected fault"),
                });
            }
        }
        Ok(())
    }
}

impl Write for FaultyWriter {
    fn write(&mut self, buf: &[u8]) -> io::Result<usize> {
        self.tick("write")?;
        let n = match self.short {
            Some(k) if !buf.is_empty() => buf.len().min(k.max(1)),
            _ => buf.len(),
        };
        self.inner.write(&buf[..n])
    }
    fn flush(&mut self) -> io::Result<()> {
        self.tick("flush")?;
        self.inner.flush()
    }
}
impl Seek for FaultyWriter {
    fn seek(&mut self, s: SeekFrom) -> io::Result<u64> {
        // stream_position() is a seek call like any other and may fail too
        self.tick("seek")?;
        self.inner.seek(s)
    }
}
impl Read for FaultyWriter {
    fn read(&mut self, buf: &mut [u8]) -> io::Result<usize> {
        self.inner.read(buf)
    }
}

// ---------------------------------------------------------------------------------------------

/// Reader over a byte vector that returns at most the next segment per `read`, can fail at the
/// n-th read call, and panics with HANG_MSG when polled too often after the end.
#[derive(Debug, Clone)]
pub struct SegReader {
    pub data: Vec<u8>,
    pub pos: usize,
    /// segment lengths, cycled; empty = unlimited
    pub segs: Vec<usize>,
    seg_i: usize,
    seg_left: usize,
    pub reads: u64,
    pub fail_at: Option<u64>,
    pub fail_kind: FaultKind,
    pub eof_polls: u64,
    pub seekable: bool,
}

impl SegReader {
    pub fn new(data: Vec<u8>) -> Self {
        SegReader {
            data,
            pos: 0,
            segs: vec![],
            seg_i: 0,
            seg_left: 0,
            reads: 0,
            fail_at: None,
            fail_kind: FaultKind::Once,
            eof_polls: 0,
            seekable: true,
        }
    }
    pub fn with_segs(mut self, segs: Vec<usize>) -> Self {
        self.segs = segs.into_iter().map(|s| s.max(1)).collect();
        self
    }
    pub fn failing(mut self, at: u64, kind: FaultKind) -> Self {
        self.fail_at = Some(at);
        self.fail_kind = kind;
        self
    }
    fn avail(&mut self, want: usize) -> usize {
        let rest = self.data.len() - self.pos.min(self.data.len());
        if self.segs.is_empty() {
            return want.min(rest);
        }
        if self.seg_left == 0 {
            self.seg_left = self.segs[self.seg_i % self.segs.len()];
            self.seg_i += 1;
        }
        want.min(rest).min(self.seg_left)
    }
    fn tick(&mut self) -> io::Result<()> {
        let i = self.reads;
        self.reads += 1;
        if let Some(n) = self.fail_at {
            let fail = match self.fail_kind {
                FaultKind::Once | FaultKind::Interrupted => i == n,
                FaultKind::Forever => i >= n,
            };
            if fail {
                return Err(match self.fail_kind {
                    FaultKind::Interrupted => io::Error::new(io::ErrorKind::Interrupted, "injected interrupt"),
                    _ => io::Error::other("injected read fault"),
                });
            }
        }
        Ok(())
    }
}

impl Read for SegReader {
    fn read(&mut self, buf: &mut [u8]) -> io::Result<usize> {
        self.tick()?;
        if buf.is_empty() {
            return Ok(0);
        }
        let n = self.avail(buf.len());
        if n == 0 {
            self.eof_polls += 1;
            if self.eof_polls > HANG_LIMIT {
                panic!("{}", HANG_MSG);
            }
            return Ok(0);
        }
        buf[..n].copy_from_slice(&self.data[self.pos..self.pos + n]);
        self.pos += n;
        if !self.segs.is_empty() {
            self.seg_left -= n;
        }
        Ok(n)
    }
}

impl Seek for SegReader {
    fn seek(&mut self, s: SeekFrom) -> io::Result<u64> {
        if !self.seekable {
            return Err(io::Error::new(io::ErrorKind::Unsupported, "not seekable"));
        }
        let np: i128 = match s {
            SeekFrom::Start(p) => p as i128,
            SeekFrom::Current(d) => self.pos as i128 + d as i128,
            SeekFrom::End(d) => self.data.len() as i128 + d as i128,
        };
        if np < 0 {
            return Err(io::Error::new(io::ErrorKind::InvalidInput, "negative seek"));
        }
        self.pos = (np as u64).min(usize::MAX as u64) as usize;
        self.seg_left = 0;
        Ok(np as u64)
    }
}

/// BufRead whose `fill_buf` slices end at chosen split points (absolute offsets, sorted).
#[derive(Debug, Clone)]
pub struct SplitBuf {
    pub data: Vec<u8>,
    pub pos: usize,
    pub splits: Vec<usize>,
    pub fills: u64,
    pub eof_polls: u64,
    /// fail the n-th fill_buf with Interrupted
    pub interrupt_at: Option<u64>,
    /// consecutive fill_buf calls that were not followed by a consume of at least one byte
    pub idle_fills: u64,
}

impl SplitBuf {
    pub fn new(data: Vec<u8>, mut splits: Vec<usize>) -> Self {
        splits.sort();
        splits.dedup();
        SplitBuf { data, pos: 0, splits, fills: 0, eof_polls: 0, interrupt_at: None, idle_fills: 0 }
    }
    fn end(&self) -> usize {
        // splits are sorted: first one beyond the current position
        let i = self.splits.partition_point(|s| *s <= self.pos);
        self.splits.get(i).copied().unwrap_or(self.data.len()).min(self.data.len())
    }
}

impl Read for SplitBuf {
    fn read(&mut self, buf: &mut [u8]) -> io::Result<usize> {
        let avail = self.fill_buf()?;
        let n = avail.len().min(buf.len());
        buf[..n].copy_from_slice(&avail[..n]);
        self.consume(n);
        Ok(n)
    }
}

impl BufRead for SplitBuf {
    fn fill_buf(&mut self) -> io::Result<&[u8]> {
        let i = self.fills;
        self.fills += 1;
        if self.interrupt_at == Some(i) {
            return Err(io::Error::new(io::ErrorKind::Interrupted, "injected interrupt"));
        }
        if self.pos >= self.data.len() {
            self.eof_polls += 1;
            if self.eof_polls > HANG_LIMIT {
                panic!("{}", HANG_MSG);
            }
            return Ok(&[]);
        }
        // a caller that keeps asking for the same non-empty buffer without consuming any of it
        // will never get anything else: that is a hang, not slowness
        self.idle_fills += 1;
        if self.idle_fills > HANG_LIMIT {
            panic!("{}", HANG_MSG);
        }
        let e = self.end();
        Ok(&self.data[self.pos..e])
    }
    fn consume(&mut self, amt: usize) {
        if amt > 0 {
            self.idle_fills = 0;
        }
        self.pos = (self.pos + amt).min(self.data.len());
    }
}

/// Cloneable handle to a `RecWriter`, so the harness can look at the log between calls while a
/// crate writer owns the other handle.
#[derive(Clone, Debug, Default)]
pub struct SharedWriter(pub std::rc::Rc<std::cell::RefCell<RecWriter>>);

impl SharedWriter {
    pub fn new(w: RecWriter) -> Self {
        SharedWriter(std::rc::Rc::new(std::cell::RefCell::new(w)))
    }
    pub fn ops_len(&self) -> usize {
        self.0.borrow().ops.len()
    }
    pub fn snapshot(&self) -> RecWriter {
        self.0.borrow().clone()
    }
}
impl Write for SharedWriter {
    fn write(&mut self, buf: &[u8]) -> io::Result<usize> {
        self.0.borrow_mut().write(buf)
    }
    fn flush(&mut self) -> io::Result<()> {
        self.0.borrow_mut().flush()
    }
}
impl Seek for SharedWriter {
    fn seek(&mut self, s: SeekFrom) -> io::Result<u64> {
        self.0.borrow_mut().seek(s)
    }
}

/// Cloneable handle to a `FaultyWriter`.
#[derive(Clone, Debug)]
pub struct SharedFaulty(pub std::rc::Rc<std::cell::RefCell<FaultyWriter>>);

impl SharedFaulty {
    pub fn new(w: FaultyWriter) -> Self {
        SharedFaulty(std::rc::Rc::new(std::cell::RefCell::new(w)))
    }
    pub fn data(&self) -> Vec<u8> {
        self.0.borrow().inner.data.clone()
    }
    pub fn count(&self) -> u64 {
        self.0.borrow().count
    }
    pub fn failed(&self) -> u64 {
        self.0.borrow().failed
    }
    pub fn last_failed_op(&self) -> Option<&'static str> {
        self.0.borrow().last_failed_op
    }
}
impl Write for SharedFaulty {
    fn write(&mut self, buf: &[u8]) -> io::Result<usize> {
        self.0.borrow_mut().write(buf)
    }
    fn flush(&mut self) -> io::Result<()> {
        self.0.borrow_mut().flush()
    }
}
impl Seek for SharedFaulty {
    fn seek(&mut self, s: SeekFrom) -> io::Result<u64> {
        self.0.borrow_mut().seek(s)
    }
}
impl Read for SharedFaulty {
    fn read(&mut self, buf: &mut [u8]) -> io::Result<usize> {
        let mut w = self.0.borrow_mut();
        if w.count_reads {
            w.tick_read()?;
        }
        w.inner.read(buf)
    }
}
