//! fv run <ID> --tier quick|thorough --seed N --out <part.json> [--threads N] [--strict]
//! fv replay <file.json>
use fv::engine::{Ctx, Tier, load_known, profile};
use std::sync::atomic::Ordering;

#[global_allocator]
static ALLOC: fv::util::CountingAlloc = fv::util::CountingAlloc;

fn arg(args: &[String], name: &str) -> Option<String> {
    args.iter().position(|a| a == name).and_then(|i| args.get(i + 1).cloned())
}

fn main() {
    fv::util::install_panic_hook();
    let args: Vec<String> = std::env::args().collect();
    match args.get(1).map(|s| s.as_str()) {
        Some("run") => {
            let prop = args.get(2).cloned().unwrap_or_default();
            let tier = match arg(&args, "--tier").as_deref() {
                Some("thorough") => Tier::Thorough,
                _ => Tier::Quick,
            };
            let seed: u64 = arg(&args, "--seed").and_then(|s| s.parse().ok()).unwrap_or(0);
            let threads: usize = arg(&args, "--threads").and_then(|s| s.parse().ok()).unwrap_or(16);
            let out = arg(&args, "--out").unwrap_or_else(|| format!("{}/.scratch/{}.{}.json", fv::util::root(), prop, profile()));
            let known = load_known(&format!("{}/known_findings.json", fv::util::root()));
            let mut ctx = Ctx::new(&prop, tier, seed, threads, known);
            ctx.strict = args.iter().any(|a| a == "--strict");
            ctx.only = arg(&args, "--only");
            ctx.scale = arg(&args, "--scale").and_then(|s| s.parse().ok()).unwrap_or_else(|| {
                // properties whose run() does not size itself for the slower overflow-checked build:
                // random searches run at 40 % there (enumerations are unaffected)
                let self_sizing = ["C01", "C02", "C03", "C04", "C08", "C11", "C12", "C13", "C15", "C16", "C17"];
                if profile() == "checked" && !self_sizing.contains(&prop.as_str()) { 0.4 } else { 1.0 }
            });
            let ctx = std::sync::Arc::new(ctx);
            // watchdog: no progress for a long time => exit 2 (inconclusive, never a violation)
            {
                let c = ctx.clone();
                let limit: u64 = arg(&args, "--stall-secs").and_then(|s| s.parse().ok()).unwrap_or(300);
                std::thread::spawn(move || {
                    let mut last = c.heartbeat.load(Ordering::Relaxed);
                    let mut idle = 0u64;
                    loop {
                        std::thread::sleep(std::time::Duration::from_secs(5));
                        let now = c.heartbeat.load(Ordering::Relaxed);
                        if now == last {
                            idle += 5;
                            if idle >= limit {
                                eprintln!("WATCHDOG: no case finished for {idle}s in {} — inconclusive", c.prop);
                                std::process::exit(2);
                            }
                        } else {
                            idle = 0;
                            last = now;
                        }
                    }
                });
            }
            let t0 = std::time::Instant::now();
            if !fv::props::run(&prop, &ctx) {
                eprintln!("unknown property {prop}");
                std::process::exit(2);
            }
            let wall = t0.elapsed().as_secs_f64();
            let part = ctx.part_json(wall);
            if let Some(dir) = std::path::Path::new(&out).parent() {
                let _ = std::fs::create_dir_all(dir);
            }
            std::fs::write(&out, serde_json::to_string_pretty(&part).unwrap()).expect("write part");
            let infra = ctx.infra_errors.lock().unwrap();
            for e in infra.iter() {
                eprintln!("INFRA: {e}");
            }
            if !infra.is_empty() {
                std::process::exit(2);
            }
            let v = ctx.violations.lock().unwrap();
            std::process::exit(if v.is_empty() { 0 } else { 1 });
        }
        Some("replay") => {
            let path = args.get(2).cloned().unwrap_or_default();
            let s = std::fs::read_to_string(&path).expect("read replay file");
            let v: serde_json::Value = serde_json::from_str(&s).expect("parse replay file");
            let prop = v["property"].as_str().unwrap_or("").to_string();
            let eng = v["engine"].as_str().unwrap_or("").to_string();
            let engines = fv::props::engines(&prop);
            let Some(e) = engines.iter().find(|e| e.dyn_name() == eng) else {
                eprintln!("no engine {eng} for {prop}");
                std::process::exit(2);
            };
            match e.replay(v["case"].clone()) {
                Err(err) => {
                    eprintln!("cannot parse case: {err}");
                    std::process::exit(2);
                }
                Ok(out) => {
                    println!("profile={} labels={:?} nontrivial={}", profile(), out.labels, out.nontrivial);
                    if out.fails.is_empty() {
                        println!("REPLAY-PASS property={prop} engine={eng}");
                        std::process::exit(0);
                    }
                    for f in &out.fails {
                        println!("REPLAY-FAIL property={prop} signature={} :: {}", f.sig, f.msg);
                    }
                    println!("VIOLATION property={prop} replay={path}");
                    std::process::exit(1);
                }
            }
        }
        Some("fuzz-replay") => {
            // fv fuzz-replay <target> <file> [property]: deterministic re-execution of a fuzzer artifact
            let target = args.get(2).cloned().unwrap_or_default();
            let path = args.get(3).cloned().unwrap_or_default();
            let prop = args.get(4).cloned().unwrap_or_else(|| "C04".into());
            let data = std::fs::read(&path).expect("read artifact");
            let out = fv::fuzzing::run_target(&target, &data);
            println!("profile={} target={target} bytes={} evals={} nontrivial={}", profile(), data.len(), out.evals, out.nontrivial);
            for e in &out.infra {
                eprintln!("INFRA: {e}");
            }
            if out.fails.is_empty() {
                println!("REPLAY-PASS property={prop} target={target}");
                std::process::exit(if out.infra.is_empty() { 0 } else { 2 });
            }
            for f in &out.fails {
                println!("REPLAY-FAIL property={prop} signature={} :: {}", f.sig, f.msg);
            }
            println!("VIOLATION property={prop} replay={path}");
            std::process::exit(1);
        }
        Some("gen-corpus") => {
            // fv gen-corpus <dir>: deterministic seed inputs for the fuzz targets
            use fv::framegen::Chooser;
            let dir = args.get(2).cloned().unwrap_or_else(|| format!("{}/corpus", fv::util::root()));
            for t in fv::fuzzing::TARGETS {
                std::fs::create_dir_all(format!("{dir}/{t}")).unwrap();
            }
            let mut seed = 1u64;
            for i in 0..60 {
                seed = seed.wrapping_mul(6364136223846793005).wrapping_add(1442695040888963407);
                let mut rng = fv::pcm::Rng(seed);
                let gs = fv::framegen::gen_stream(&mut rng, i % 12 == 0, 2, 40);
                if gs.bytes.len() < 1500 {
                    std::fs::write(format!("{dir}/dec_raw/gen{i:02}.flac"), &gs.bytes).unwrap();
                    std::fs::write(format!("{dir}/streamreader/gen{i:02}.frames"), &gs.bytes[gs.first_frame..]).unwrap();
                    std::fs::write(format!("{dir}/meta_raw/gen{i:02}.meta"), &gs.bytes[..gs.first_frame]).unwrap();
                }
                // structured targets: random choice bytes
                let n = 40 + rng.below(200) as usize;
                let bytes: Vec<u8> = (0..n).map(|_| rng.next() as u8).collect();
                std::fs::write(format!("{dir}/dec_struct/r{i:02}"), &bytes).unwrap();
                std::fs::write(format!("{dir}/frame_struct/r{i:02}"), &bytes).unwrap();
            }
            let specs = fv::engine::sample_strategy(&fv::cuegen::spec_strategy(20, 20), 7, 20);
            for (i, s) in specs.iter().enumerate() {
                std::fs::write(format!("{dir}/cue_text/gen{i:02}.cue"), s.render()).unwrap();
            }
            let lists = fv::engine::sample_strategy(&fv::metagen::rlist_strategy(), 9, 30);
            for (i, l) in lists.iter().enumerate() {
                let b = fv::refmeta::serialize(l);
                if b.len() < 4000 {
                    std::fs::write(format!("{dir}/meta_raw/list{i:02}.meta"), &b).unwrap();
                }
            }
            std::fs::write(format!("{dir}/picture/t.png"), fv::props::c12::png_template()).unwrap();
            std::fs::write(format!("{dir}/picture/t.jpg"), fv::props::c12::jpeg_template()).unwrap();
            std::fs::write(format!("{dir}/picture/t.gif"), fv::props::c12::gif_template()).unwrap();
            println!("corpus written to {dir}");
        }
        Some("oracle-encode") => {
            fv::props::c18::oracle_loop();
        }
        Some("decode") => {
            // fv decode <hex> [flipbit]: show the independent and the crate's reading of a file
            let mut b = fv::util::unhex(&args[2]);
            if let Some(bit) = args.get(3).and_then(|s| s.parse::<usize>().ok()) {
                b[bit / 8] ^= 0x80 >> (bit % 8);
            }
            match fv::refdec::decode_partial(&b, &fv::refdec::Cfg::LENIENT) {
                Ok((d, e)) => {
                    println!("refdec: info={:?} first_frame={} err={:?}", d.info, d.first_frame, e);
                    for f in &d.frames {
                        println!("  frame off={} len={} bs={} chan_code={} num={} subs={:?}", f.offset, f.len, f.bs, f.chan_code, f.number, f.subframes);
                    }
                    println!("  pcm={:?}", d.pcm);
                }
                Err(e) => println!("refdec: {e}"),
            }
            println!("strict: {:?}", fv::refdec::decode_file(&b, &fv::refdec::Cfg::STRICT).map(|_| ()));
            let r = fv::util::guarded(|| fv::codec::decode_with(std::io::Cursor::new(&b), fv::codec::ReaderKind::Sample, 4096));
            match r {
                Ok(Ok(d)) => println!("crate: {}ch err={:?} samples={:?}", d.channels, d.err, d.samples),
                Ok(Err(e)) => println!("crate: open error {e}"),
                Err(p) => println!("crate: panic {:?}", p),
            }
        }
        _ => {
            eprintln!("usage: fv run <ID> --tier quick|thorough --seed N --out FILE | fv replay FILE");
            std::process::exit(2);
        }
    }
}
