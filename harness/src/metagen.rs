//! Metadata generators: value-level specs built through the crate's public constructors, byte-level
//! blocks built by the independent serialiser, and the expected independent view of crate values.

use crate::cuegen::{self, CueSpec};
use crate::refmeta::{RBlock, RIndex, RTrack};
use bitstream_io::SignedBitCount;
use flac_codec::metadata::contiguous::Contiguous;
use flac_codec::metadata::{
    Application, Block, Cuesheet, MetadataBlock, Padding, Picture, PictureType, SeekPoint, SeekTable, Streaminfo, VorbisComment,
};
use proptest::prelude::*;
use serde::{Deserialize, Serialize};
use std::num::NonZero;

#[derive(Serialize, Deserialize, Clone, Debug, Hash, PartialEq, Eq)]
pub struct SiSpec {
    pub min_bs: u16,
    pub max_bs: u16,
    pub min_fs: u32,
    pub max_fs: u32,
    pub rate: u32,
    pub channels: u8,
    pub bps: u8,
    pub total: u64,
    pub md5: Option<[u8; 16]>,
}

#[derive(Serialize, Deserialize, Clone, Debug, Hash, PartialEq, Eq)]
pub enum VBlock {
    Padding(u32),
    App { id: u32, len: u32 },
    Seek { points: Vec<(u64, u64, u16)>, placeholders: u8 },
    Vorbis { vendor: String, fields: Vec<String> },
    Picture { ptype: u8, mime: String, desc: String, dims: [u32; 4], len: u32 },
    /// CD-DA cue sheet imported from generated text
    CueCd(CueSpec),
    /// non-CD-DA cue sheet imported from generated text (positions are plain sample numbers)
    CueNonCd(CueSpec),
}

#[derive(Serialize, Deserialize, Clone, Debug, Hash, PartialEq, Eq)]
pub struct VSpec {
    pub si: SiSpec,
    pub blocks: Vec<VBlock>,
}

impl SiSpec {
    pub fn in_range(&self) -> bool {
        self.min_fs < (1 << 24) && self.max_fs < (1 << 24) && self.rate < (1 << 20) && (1..=8).contains(&self.channels) && (1..=32).contains(&self.bps) && self.total < (1 << 36)
    }
    pub fn build(&self) -> Option<Streaminfo> {
        Some(Streaminfo {
            minimum_block_size: self.min_bs,
            maximum_block_size: self.max_bs,
            minimum_frame_size: NonZero::new(self.min_fs),
            maximum_frame_size: NonZero::new(self.max_fs),
            sample_rate: self.rate,
            channels: NonZero::new(self.channels)?,
            bits_per_sample: SignedBitCount::<32>::try_from(self.bps as u32).ok()?,
            total_samples: NonZero::new(self.total),
            md5: self.md5,
        })
    }
}

pub fn picture_type(n: u8) -> PictureType {
    use PictureType::*;
    [
        Other, Png32x32, GeneralFileIcon, FrontCover, BackCover, LinerNotes, MediaLabel, LeadArtist, Artist, Conductor, Band, Composer, Lyricist,
        RecordingLocation, DuringRecording, DuringPerformance, ScreenCapture, Fish, Illustration, BandLogo, PublisherLogo,
    ][n as usize % 21]
}

/// Non-CD rendering of a cue spec: positions become plain sample numbers; returns (text, total)
pub fn render_noncd(spec: &CueSpec) -> (String, u64) {
    let m = spec.model();
    let mut s = String::new();
    if let Some(c) = &m.catalog {
        s.push_str(&format!("CATALOG {c}\n"));
    }
    s.push_str("FILE \"x.flac\" FLAC\n");
    let conv = |p: u64| p / cuegen::SAMPLES_PER_FRAME * 7;
    for (t, mt) in spec.tracks.iter().zip(&m.tracks) {
        s.push_str(&format!("  TRACK {} AUDIO\n", mt.number));
        if t.pre_emphasis {
            s.push_str("    FLAGS PRE\n");
        }
        if let Some(i) = &mt.isrc {
            s.push_str(&format!("    ISRC {i}\n"));
        }
        for (n, p) in &mt.indices {
            s.push_str(&format!("    INDEX {} {}\n", n, conv(*p)));
        }
    }
    let mut total = conv(m.total_samples) + 1;
    if total % 588 == 0 {
        total += 1;
    }
    (s, total)
}

pub fn build_block(v: &VBlock) -> Result<Block, String> {
    Ok(match v {
        VBlock::Padding(n) => Padding { size: (*n).try_into().map_err(|_| "padding size".to_string())? }.into(),
        VBlock::App { id, len } => Application { id: *id, data: vec![0xA5; *len as usize] }.into(),
        VBlock::Seek { points, placeholders } => {
            let mut v: Vec<SeekPoint> = points.iter().map(|(s, o, n)| SeekPoint::Defined { sample_offset: *s, byte_offset: *o, frame_samples: *n }).collect();
            v.extend(std::iter::repeat_n(SeekPoint::Placeholder, *placeholders as usize));
            SeekTable { points: Contiguous::try_from(v).map_err(|_| "seek points not contiguous".to_string())? }.into()
        }
        VBlock::Vorbis { vendor, fields } => VorbisComment { vendor_string: vendor.clone(), fields: fields.clone() }.into(),
        VBlock::Picture { ptype, mime, desc, dims, len } => Picture {
            picture_type: picture_type(*ptype),
            media_type: mime.clone(),
            description: desc.clone(),
            width: dims[0],
            height: dims[1],
            color_depth: dims[2],
            colors_used: NonZero::new(dims[3]),
            data: vec![0x3C; *len as usize],
        }
        .into(),
        VBlock::CueCd(spec) => {
            let m = spec.model();
            Cuesheet::parse(m.total_samples, &spec.render()).map_err(|e| format!("cue import: {e}"))?.into()
        }
        VBlock::CueNonCd(spec) => {
            let (text, total) = render_noncd(spec);
            Cuesheet::parse(total, &text).map_err(|e| format!("cue import: {e}"))?.into()
        }
    })
}

/// The independent (RFC layout) view a crate block value must serialise to.
pub fn expect_rblock(b: &Block) -> RBlock {
    match b {
        Block::Streaminfo(s) => RBlock::Streaminfo {
            min_bs: s.minimum_block_size,
            max_bs: s.maximum_block_size,
            min_fs: s.minimum_frame_size.map(|x| x.get()).unwrap_or(0),
            max_fs: s.maximum_frame_size.map(|x| x.get()).unwrap_or(0),
            rate: s.sample_rate,
            channels: s.channels.get(),
            bps: u32::from(s.bits_per_sample) as u8,
            total: s.total_samples.map(|x| x.get()).unwrap_or(0),
            md5: s.md5.unwrap_or([0; 16]),
        },
        Block::Padding(p) => RBlock::Padding { len: u32::from(p.size), fill: 0 },
        Block::Application(a) => RBlock::Application { id: a.id, data: a.data.clone() },
        Block::SeekTable(t) => RBlock::SeekTable {
            points: t
                .points
                .iter()
                .map(|p| match p {
                    SeekPoint::Defined { sample_offset, byte_offset, frame_samples } => (*sample_offset, *byte_offset, *frame_samples),
                    SeekPoint::Placeholder => (u64::MAX, 0, 0),
                })
                .collect(),
        },
        Block::VorbisComment(v) => {
            RBlock::Vorbis { vendor: v.vendor_string.as_bytes().to_vec(), fields: v.fields.iter().map(|f| f.as_bytes().to_vec()).collect() }
        }
        Block::Picture(p) => RBlock::Picture {
            ptype: p.picture_type as u32,
            mime: p.media_type.as_bytes().to_vec(),
            desc: p.description.as_bytes().to_vec(),
            width: p.width,
            height: p.height,
            depth: p.color_depth,
            colors: p.colors_used.map(|c| c.get()).unwrap_or(0),
            data: p.data.clone(),
        },
        Block::Cuesheet(c) => {
            let cat = c.catalog_number().to_string().into_bytes();
            let mut catalog = vec![0u8; 128];
            for (o, i) in catalog.iter_mut().zip(&cat) {
                *o = *i;
            }
            let is_cd = c.is_cdda();
            let tracks = c
                .tracks()
                .map(|t| {
                    let mut isrc = [0u8; 12];
                    for (o, i) in isrc.iter_mut().zip(t.isrc.as_ref().as_bytes()) {
                        *o = *i;
                    }
                    RTrack {
                        offset: t.offset,
                        number: t.number.unwrap_or(if is_cd { 170 } else { 255 }),
                        isrc,
                        non_audio: t.non_audio,
                        pre_emphasis: t.pre_emphasis,
                        reserved: vec![0; 14],
                        indices: t.index_points.iter().map(|i| RIndex { offset: i.offset, number: i.number, reserved: [0; 3] }).collect(),
                    }
                })
                .collect();
            RBlock::Cuesheet { catalog, lead_in: c.lead_in_samples().unwrap_or(0), is_cd, reserved: vec![0; 259], tracks }
        }
    }
}

/// (`bytes()`, `total_size()`) the block reports for itself
pub fn reported_sizes(b: &Block) -> (Option<u32>, Option<u32>) {
    fn f<M: MetadataBlock>(m: &M) -> (Option<u32>, Option<u32>) {
        (m.bytes().map(u32::from), m.total_size().map(u32::from))
    }
    match b {
        Block::Streaminfo(x) => f(x),
        Block::Padding(x) => f(x),
        Block::Application(x) => f(x),
        Block::SeekTable(x) => f(x),
        Block::VorbisComment(x) => f(x),
        Block::Cuesheet(x) => f(x),
        Block::Picture(x) => f(x),
    }
}

// ---------------------------------------------------------------------------------------------
// value-level strategies

pub fn si_strategy(allow_illegal: bool) -> BoxedStrategy<SiSpec> {
    let fs = prop_oneof![2 => Just(0u32), 2 => 1u32..100_000, 1 => Just((1u32 << 24) - 1), 1 => Just(1u32)];
    let rate = prop_oneof![2 => Just(44100u32), 1 => Just(0u32), 1 => Just((1u32 << 20) - 1), 2 => 0u32..(1 << 20)];
    let total = prop_oneof![2 => Just(0u64), 2 => 1u64..1_000_000, 1 => Just((1u64 << 36) - 1), 1 => 0u64..(1 << 36)];
    let bps = prop_oneof![1 => Just(1u8), 1 => Just(32u8), 2 => 1u8..=32, 1 => Just(16u8)];
    let md5 = proptest::option::weighted(0.6, any::<[u8; 16]>().prop_filter("all-zero digest reads back as None", |m| m != &[0u8; 16]));
    let base = (any::<u16>(), any::<u16>(), fs.clone(), fs, rate, 1u8..=8, bps, total, md5)
        .prop_map(|(min_bs, max_bs, min_fs, max_fs, rate, channels, bps, total, md5)| SiSpec { min_bs, max_bs, min_fs, max_fs, rate, channels, bps, total, md5 });
    if allow_illegal {
        (base, 0u8..8)
            .prop_map(|(mut s, k)| {
                match k {
                    0 => s.rate = 1 << 20,
                    1 => s.min_fs = 1 << 24,
                    2 => s.total = 1 << 36,
                    3 => s.channels = 9,
                    4 => s.max_fs = u32::MAX,
                    _ => {}
                }
                s
            })
            .boxed()
    } else {
        base.boxed()
    }
}

pub fn text_strategy(max: usize) -> BoxedStrategy<String> {
    prop_oneof![
        3 => proptest::collection::vec(proptest::char::range(' ', '~'), 0..max.min(40)).prop_map(|v| v.into_iter().collect()),
        2 => proptest::collection::vec(any::<char>(), 0..max.min(20)).prop_map(|v| v.into_iter().collect()),
        1 => (0usize..max).prop_map(|n| "é".repeat(n / 2)),
        1 => Just(String::new()),
    ]
    .boxed()
}

pub fn seek_points_strategy() -> BoxedStrategy<(Vec<(u64, u64, u16)>, u8)> {
    (proptest::collection::vec((1u64..1_000_000, any::<u64>(), any::<u16>()), 0..40), prop_oneof![3 => Just(0u8), 1 => 0u8..20], any::<bool>())
        .prop_map(|(v, ph, from_zero)| {
            let mut s = 0u64;
            let mut out = vec![];
            for (i, (d, o, n)) in v.into_iter().enumerate() {
                if i > 0 || !from_zero {
                    s += d;
                }
                // u64::MAX is the placeholder marker
                out.push((s, o, n));
            }
            (out, ph)
        })
        .boxed()
}

pub fn vblock_strategy(big: bool) -> BoxedStrategy<VBlock> {
    let biglen = if big { 70_000u32..200_000 } else { 0u32..300 };
    prop_oneof![
        2 => prop_oneof![10 => Just(0u32), 30 => 0u32..5000, 1 => Just((1u32 << 24) - 1), 1 => Just((1u32 << 24) - 5)].prop_map(VBlock::Padding),
        2 => (any::<u32>(), prop_oneof![3 => 0u32..300, 1 => biglen.clone()]).prop_map(|(id, len)| VBlock::App { id, len }),
        2 => seek_points_strategy().prop_map(|(points, placeholders)| VBlock::Seek { points, placeholders }),
        3 => (text_strategy(60), proptest::collection::vec(prop_oneof![6 => (text_strategy(8), text_strategy(60)).prop_map(|(k, v)| format!("K{}={}", k.replace('=', ""), v)), 2 => text_strategy(30), 1 => channel_mask_field()], 0..8))
            .prop_map(|(vendor, fields)| VBlock::Vorbis { vendor, fields }),
        3 => (0u8..21, text_strategy(30), text_strategy(60), any::<[u32; 4]>(), prop_oneof![3 => 0u32..300, 1 => biglen])
            .prop_map(|(ptype, mime, desc, dims, len)| VBlock::Picture { ptype, mime, desc, dims, len }),
        2 => cuegen::spec_strategy(99, 100).prop_map(VBlock::CueCd),
        2 => cuegen::spec_strategy(254, 256).prop_map(VBlock::CueNonCd),
    ]
    .boxed()
}

/// keeps at most one block of each single-instance kind
pub fn dedupe(blocks: Vec<VBlock>) -> Vec<VBlock> {
    let (mut seek, mut vorbis, mut png, mut icon) = (false, false, false, false);
    blocks
        .into_iter()
        .filter(|b| match b {
            VBlock::Seek { .. } => !std::mem::replace(&mut seek, true),
            VBlock::Vorbis { .. } => !std::mem::replace(&mut vorbis, true),
            VBlock::Picture { ptype, .. } if ptype % 21 == 1 => !std::mem::replace(&mut png, true),
            VBlock::Picture { ptype, .. } if ptype % 21 == 2 => !std::mem::replace(&mut icon, true),
            _ => true,
        })
        .collect()
}

pub fn vspec_strategy() -> BoxedStrategy<VSpec> {
    (si_strategy(false), proptest::collection::vec(vblock_strategy(false), 0..6), proptest::option::weighted(0.05, vblock_strategy(true)))
        .prop_map(|(si, mut blocks, big)| {
            if let Some(b) = big {
                blocks.push(b);
            }
            VSpec { si, blocks: dedupe(blocks) }
        })
        .boxed()
}

// ---------------------------------------------------------------------------------------------
// byte-level strategies (legal field contents, incl. non-zero reserved bits)

/// exactly 12 bytes of valid UTF-8 that is not an ISRC: multi-byte characters at every offset
/// (the reader must refuse it with an error, whatever byte offsets it slices at)
pub fn hostile_isrc_strategy() -> BoxedStrategy<String> {
    "[A-Z0-9a-z\u{e9}\u{20ac}\u{1F3B5} -]{1,12}"
        .prop_map(|t| {
            let mut out = String::new();
            for c in t.chars() {
                if out.len() + c.len_utf8() > 12 {
                    break;
                }
                out.push(c);
            }
            while out.len() < 12 {
                out.push('0');
            }
            out
        })
        .boxed()
}

pub fn rtrack_strategy(cd: bool, number: u8, max_idx: usize) -> BoxedStrategy<RTrack> {
    (
        1u64..5000,
        proptest::option::weighted(0.3, prop_oneof![6 => cuegen::isrc_strategy(), 1 => hostile_isrc_strategy()]),
        any::<bool>(),
        any::<bool>(),
        prop_oneof![4 => Just(vec![0u8; 14]), 1 => proptest::collection::vec(any::<u8>(), 14)],
        any::<bool>(),
        prop_oneof![8 => 1usize..4, 2 => 1usize..=max_idx, 1 => Just(max_idx)],
        proptest::collection::vec(1u64..3000, max_idx.min(260)),
        prop_oneof![5 => Just([0u8; 3]), 1 => any::<[u8; 3]>()],
    )
        .prop_map(move |(off, isrc, non_audio, pre, reserved, pregap, n, gaps, ires)| {
            let unit = if cd { 588 } else { 1 };
            let mut indices = vec![];
            let mut pos = 0u64;
            let mut num: u16 = if pregap { 0 } else { 1 };
            for g in gaps.iter().take(n.max(if pregap { 2 } else { 1 })) {
                if !indices.is_empty() {
                    pos += g * unit;
                }
                if num > 255 {
                    break;
                }
                indices.push(RIndex { offset: pos, number: num as u8, reserved: ires });
                num += 1;
            }
            let mut ib = [0u8; 12];
            if let Some(s) = isrc {
                ib.copy_from_slice(s.as_bytes());
            }
            RTrack { offset: off * unit, number, isrc: ib, non_audio, pre_emphasis: pre, reserved, indices }
        })
        .boxed()
}

pub fn rcuesheet_strategy() -> BoxedStrategy<RBlock> {
    (any::<bool>(), prop_oneof![4 => 1usize..5, 1 => 1usize..100, 1 => 100usize..255]).prop_flat_map(|(cd, n)| {
        let n = if cd { n.min(99) } else { n.min(254) };
        let max_idx = if cd { 100 } else { 256 };
        let tracks: Vec<BoxedStrategy<RTrack>> = (0..n).map(|i| rtrack_strategy(cd, i as u8 + 1, max_idx)).collect();
        (
            tracks,
            prop_oneof![Just(String::new()), "[0-9]{13}", "[0-9]{1,128}"],
            prop_oneof![Just(88200u64), any::<u64>(), Just(0u64)],
            prop_oneof![5 => Just(vec![0u8; 259]), 1 => proptest::collection::vec(any::<u8>(), 259)],
            1u64..5000,
            prop_oneof![5 => Just(vec![0u8; 14]), 1 => proptest::collection::vec(any::<u8>(), 14)],
        )
            .prop_map(move |(mut tracks, catalog, lead_in, reserved, tail, lres)| {
                // make track offsets absolute and increasing: each starts after the previous one's last index
                let unit = if cd { 588 } else { 1 };
                let mut pos = 0u64;
                for (i, t) in tracks.iter_mut().enumerate() {
                    let span = t.indices.last().map(|x| x.offset).unwrap_or(0);
                    if i == 0 {
                        t.offset = 0;
                    } else {
                        t.offset = pos + t.offset;
                    }
                    pos = t.offset + span;
                }
                tracks.push(RTrack {
                    offset: pos + tail * unit,
                    number: if cd { 170 } else { 255 },
                    isrc: [0; 12],
                    non_audio: false,
                    pre_emphasis: false,
                    reserved: lres,
                    indices: vec![],
                });
                let catalog = if cd && !(catalog.is_empty() || catalog.len() == 13) { String::new() } else { catalog };
                // now and then push the tail of the sheet towards the top of the u64 range
                // (still ascending, still multiples of 588 for CD-DA)
                if tail % 7 == 0 {
                    let top = u64::MAX / 588 * 588;
                    let n = tracks.len();
                    let shift = top - tracks[n - 1].offset;
                    let from = if n >= 2 { n - 2 } else { n - 1 };
                    for t in tracks[from..].iter_mut() {
                        t.offset += shift;
                    }
                }
                if tail % 7 == 3 && tracks.len() >= 2 {
                    // a track whose absolute index positions (track offset + relative offset) leave the u64 range
                    let half = u64::MAX / 2 / 588 * 588;
                    let n = tracks.len();
                    let prev_last = if n >= 3 { tracks[n - 3].indices.last().map(|i| i.offset).unwrap_or(0) } else { 0 };
                    let t = &mut tracks[n - 2];
                    if n == 2 {
                        // first track must start at 0: make its last index huge instead
                        let many = t.indices.len() > 1;
                        if let Some(i) = t.indices.last_mut() {
                            if many {
                                i.offset = u64::MAX / 588 * 588;
                            }
                        }
                    } else {
                        t.offset = half.max(prev_last + 588);
                        let many = t.indices.len() > 1;
                        if let Some(i) = t.indices.last_mut() {
                            if many {
                                i.offset = half + 588 * 2;
                            }
                        }
                    }
                    tracks[n - 1].offset = u64::MAX / 588 * 588;
                }
                RBlock::Cuesheet { catalog: catalog.into_bytes(), lead_in, is_cd: cd, reserved, tracks }
            })
    })
    .boxed()
}

/// Vorbis comment entries that drive the channel-mask accessor, well-formed and not
pub fn channel_mask_field() -> BoxedStrategy<String> {
    prop_oneof![
        proptest::sample::select(
            &["", "0", "x", "0x", "0x3", "0x33", "0X3", "3", "0xFFFFFFFF", "0x1FFFFFFFF", "0é", "0€3", "é", "0x-1", "0x 3", " 0x3", "0xg", "00x3", "0x0"][..]
        )
        .prop_map(|v| format!("WAVEFORMATEXTENSIBLE_CHANNEL_MASK={v}")),
        "[0x]{0,3}[0-9A-Fa-fx]{0,9}".prop_map(|v| format!("WAVEFORMATEXTENSIBLE_CHANNEL_MASK={v}")),
        ".{0,4}".prop_map(|v| format!("waveformatextensible_channel_mask={v}")),
    ]
    .boxed()
}

pub fn utf8_bytes(max: usize) -> BoxedStrategy<Vec<u8>> {
    text_strategy(max).prop_map(|s| s.into_bytes()).boxed()
}

pub fn rblock_strategy() -> BoxedStrategy<RBlock> {
    prop_oneof![
        2 => (prop_oneof![Just(0u32), 0u32..300], prop_oneof![4 => Just(0u8), 1 => any::<u8>()]).prop_map(|(len, fill)| RBlock::Padding { len, fill }),
        2 => (any::<u32>(), proptest::collection::vec(any::<u8>(), 0..60)).prop_map(|(id, data)| RBlock::Application { id, data }),
        2 => (seek_points_strategy(), any::<u64>(), any::<u16>()).prop_map(|((mut points, ph), g1, g2)| {
            for _ in 0..ph {
                points.push((u64::MAX, g1, g2));
            }
            RBlock::SeekTable { points }
        }),
        3 => (utf8_bytes(40), proptest::collection::vec(prop_oneof![3 => utf8_bytes(50), 1 => channel_mask_field().prop_map(|s| s.into_bytes())], 0..8))
            .prop_map(|(vendor, fields)| RBlock::Vorbis { vendor, fields }),
        2 => (0u32..=20, utf8_bytes(30), utf8_bytes(40), any::<[u32; 4]>(), proptest::collection::vec(any::<u8>(), 0..80))
            .prop_map(|(ptype, mime, desc, d, data)| RBlock::Picture { ptype, mime, desc, width: d[0], height: d[1], depth: d[2], colors: d[3], data }),
        4 => rcuesheet_strategy(),
    ]
    .boxed()
}

pub fn rstreaminfo_strategy() -> BoxedStrategy<RBlock> {
    si_strategy(false)
        .prop_map(|s| RBlock::Streaminfo {
            min_bs: s.min_bs,
            max_bs: s.max_bs,
            min_fs: s.min_fs,
            max_fs: s.max_fs,
            rate: s.rate,
            channels: s.channels,
            bps: s.bps,
            total: s.total,
            md5: s.md5.unwrap_or([0; 16]),
        })
        .boxed()
}

pub fn rdedupe(blocks: Vec<RBlock>) -> Vec<RBlock> {
    let (mut seek, mut vorbis, mut png, mut icon) = (false, false, false, false);
    blocks
        .into_iter()
        .filter(|b| match b {
            RBlock::SeekTable { .. } => !std::mem::replace(&mut seek, true),
            RBlock::Vorbis { .. } => !std::mem::replace(&mut vorbis, true),
            RBlock::Picture { ptype: 1, .. } => !std::mem::replace(&mut png, true),
            RBlock::Picture { ptype: 2, .. } => !std::mem::replace(&mut icon, true),
            _ => true,
        })
        .collect()
}

pub fn rlist_strategy() -> BoxedStrategy<Vec<RBlock>> {
    (rstreaminfo_strategy(), proptest::collection::vec(rblock_strategy(), 0..5))
        .prop_map(|(si, rest)| {
            let mut v = vec![si];
            v.extend(rdedupe(rest));
            v
        })
        .boxed()
}
