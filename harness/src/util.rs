//! Small shared utilities: hashing, panic capture, allocation accounting.

use std::cell::{Cell, RefCell};
use std::panic::{AssertUnwindSafe, catch_unwind};

pub fn fnv64(data: &[u8]) -> u64 {
    let mut h: u64 = 0xcbf29ce484222325;
    for b in data {
        h ^= *b as u64;
        h = h.wrapping_mul(0x100000001b3);
    }
    h
}

pub fn fnv_str(s: &str) -> u64 {
    fnv64(s.as_bytes())
}

/// Deterministic digest of any `Hash` value (SipHash with fixed zero keys).
pub fn digest<T: std::hash::Hash>(t: &T) -> u64 {
    use std::hash::Hasher;
    #[allow(deprecated)]
    let mut h = std::hash::SipHasher::new_with_keys(0x5eed, 0xf1ac);
    t.hash(&mut h);
    h.finish()
}

// ---------------------------------------------------------------------------------------------
// panic capture

#[derive(Debug, Clone)]
pub struct PanicInfo {
    pub file: String,
    pub line: u32,
    pub msg: String,
}

thread_local! {
    static LAST_PANIC: RefCell<Option<PanicInfo>> = const { RefCell::new(None) };
    static CAPTURING: Cell<u32> = const { Cell::new(0) };
    /// panics raised on this thread that no `guarded` has caught yet
    static PENDING: Cell<u32> = const { Cell::new(0) };
    /// the case being evaluated on this thread (for the emergency path below)
    static CURRENT: Cell<(*const u8, Option<fn(*const u8) -> String>, &'static str)> =
        const { Cell::new((std::ptr::null(), None, "")) };
}

pub static PROP: std::sync::OnceLock<String> = std::sync::OnceLock::new();

/// Registers the case under evaluation so that a panic-while-panicking (which aborts the process
/// and cannot be caught) can still be turned into a replay file and a VIOLATION line.
pub fn set_current<T: serde::Serialize>(engine: &'static str, case: &T) {
    fn ser<T: serde::Serialize>(p: *const u8) -> String {
        // SAFETY: the pointer is set from a live reference by `set_current` and cleared by
        // `clear_current` before that reference goes out of scope.
        let r: &T = unsafe { &*(p as *const T) };
        serde_json::to_string(r).unwrap_or_default()
    }
    CURRENT.with(|c| c.set((case as *const T as *const u8, Some(ser::<T>), engine)));
}

pub fn clear_current() {
    CURRENT.with(|c| c.set((std::ptr::null(), None, "")));
}

fn emergency(first: &Option<PanicInfo>, second: &PanicInfo) -> ! {
    use std::io::Write;
    let prop = PROP.get().cloned().unwrap_or_default();
    let (ptr, ser, engine) = CURRENT.with(|c| c.get());
    let case = match ser {
        Some(f) if !ptr.is_null() => f(ptr),
        _ => "null".to_string(),
    };
    let sig = format!(
        "abort:double-panic:{}",
        first.as_ref().map(panic_sig).unwrap_or_else(|| panic_sig(second))
    );
    let dir = format!("{}/replays/{prop}", root());
    let _ = std::fs::create_dir_all(&dir);
    let path = format!("{dir}/{engine}-abort-{:016x}.json", fnv_str(&sig));
    let body = format!(
        "{{\"property\":{:?},\"engine\":{:?},\"profile\":{:?},\"signature\":{:?},\"message\":{:?},\"case\":{}}}",
        prop,
        engine,
        if cfg!(debug_assertions) { "checked" } else { "release" },
        sig,
        format!(
            "a second panic was raised while the first was unwinding (the process would abort): first {:?}, second {:?}",
            first, second
        ),
        case
    );
    let _ = std::fs::write(&path, body);
    let out = std::io::stdout();
    let mut o = out.lock();
    let _ = writeln!(o, "ABORTING-VIOLATION property={prop} signature={sig} replay={path}");
    let _ = o.flush();
    std::process::exit(3);
}

pub fn install_panic_hook() {
    let prev = std::panic::take_hook();
    std::panic::set_hook(Box::new(move |info| {
        let capturing = CAPTURING.with(|c| c.get()) > 0;
        let msg = if let Some(s) = info.payload().downcast_ref::<&str>() {
            (*s).to_string()
        } else if let Some(s) = info.payload().downcast_ref::<String>() {
            s.clone()
        } else {
            "<non-string panic>".to_string()
        };
        let (file, line) = info
            .location()
            .map(|l| (l.file().to_string(), l.line()))
            .unwrap_or_default();
        if capturing {
            let pi = PanicInfo { file, line, msg };
            let pending = PENDING.with(|c| c.get());
            if pending > 0 {
                let first = LAST_PANIC.with(|p| p.borrow().clone());
                emergency(&first, &pi);
            }
            PENDING.with(|c| c.set(pending + 1));
            LAST_PANIC.with(|p| *p.borrow_mut() = Some(pi));
        } else {
            prev(info);
        }
    }));
}

/// Runs `f`, converting an unwind into `Err(PanicInfo)`.
pub fn guarded<T>(f: impl FnOnce() -> T) -> Result<T, PanicInfo> {
    CAPTURING.with(|c| c.set(c.get() + 1));
    LAST_PANIC.with(|p| *p.borrow_mut() = None);
    let pending = PENDING.with(|c| c.get());
    let r = catch_unwind(AssertUnwindSafe(f));
    PENDING.with(|c| c.set(pending));
    CAPTURING.with(|c| c.set(c.get() - 1));
    match r {
        Ok(v) => Ok(v),
        Err(_) => Err(LAST_PANIC.with(|p| p.borrow_mut().take()).unwrap_or(PanicInfo {
            file: "?".into(),
            line: 0,
            msg: "?".into(),
        })),
    }
}

/// Signature of a panic that is stable under unrelated line shifts: file name, the trimmed text
/// of the source line that panicked (read from the tree under test), and the message with
/// numbers removed.
pub fn panic_sig(p: &PanicInfo) -> String {
    let fname = p.file.rsplit('/').next().unwrap_or("?");
    let in_repo = p.file.starts_with("/repo/") || p.file.starts_with("src/");
    let src = if in_repo {
        let path = if p.file.starts_with('/') {
            p.file.clone()
        } else {
            format!("/repo/{}", p.file)
        };
        std::fs::read_to_string(&path)
            .ok()
            .and_then(|s| s.lines().nth(p.line.saturating_sub(1) as usize).map(|l| l.trim().to_string()))
            .unwrap_or_else(|| format!("line {}", p.line))
    } else {
        // panic raised inside a dependency or std on behalf of the crate: use the file only
        String::new()
    };
    let mut m = String::new();
    let mut last_digit = false;
    for ch in p.msg.chars() {
        if ch.is_ascii_digit() {
            if !last_digit {
                m.push('#');
            }
            last_digit = true;
        } else {
            last_digit = false;
            m.push(ch);
        }
    }
    if m.len() > 80 {
        let mut cut = 80;
        while !m.is_char_boundary(cut) {
            cut -= 1;
        }
        m.truncate(cut);
    }
    let loc = if in_repo {
        format!("{}", fname)
    } else {
        let parts: Vec<&str> = p.file.rsplit('/').take(3).collect();
        parts.into_iter().rev().collect::<Vec<_>>().join("/")
    };
    format!("panic@{}[{}]:{}", loc, src, m)
}

// ---------------------------------------------------------------------------------------------
// allocation accounting (per thread)

pub struct CountingAlloc;

thread_local! {
    static LIVE: Cell<usize> = const { Cell::new(0) };
    static PEAK: Cell<usize> = const { Cell::new(0) };
}

/// Requests of at least this size are served by an anonymous MAP_NORESERVE mapping instead of
/// malloc: a hostile length field that makes the crate reserve tens of gigabytes then shows up
/// as an ordinary "peak allocation" failure of the case (with shrinking and a replay file)
/// instead of aborting the whole process in `handle_alloc_error`.
const HUGE: usize = 1 << 30;

unsafe extern "C" {
    fn mmap(addr: *mut u8, len: usize, prot: i32, flags: i32, fd: i32, off: i64) -> *mut u8;
    fn munmap(addr: *mut u8, len: usize) -> i32;
}

unsafe fn huge_alloc(size: usize) -> *mut u8 {
    // PROT_READ|PROT_WRITE = 3; MAP_PRIVATE|MAP_ANONYMOUS|MAP_NORESERVE = 0x2|0x20|0x4000 (Linux)
    let p = unsafe { mmap(std::ptr::null_mut(), size, 3, 0x2 | 0x20 | 0x4000, -1, 0) };
    if p as isize == -1 { std::ptr::null_mut() } else { p }
}

fn note_alloc(added: usize, removed: usize) {
    let _ = LIVE.try_with(|c| {
        let v = c.get().wrapping_sub(removed).wrapping_add(added);
        c.set(v);
        let _ = PEAK.try_with(|p| {
            if v > p.get() && v < (1usize << 60) {
                p.set(v)
            }
        });
    });
}

unsafe impl std::alloc::GlobalAlloc for CountingAlloc {
    unsafe fn alloc(&self, l: std::alloc::Layout) -> *mut u8 {
        note_alloc(l.size(), 0);
        if l.size() >= HUGE && l.align() <= 4096 {
            return unsafe { huge_alloc(l.size()) };
        }
        unsafe { std::alloc::System.alloc(l) }
    }
    unsafe fn alloc_zeroed(&self, l: std::alloc::Layout) -> *mut u8 {
        note_alloc(l.size(), 0);
        if l.size() >= HUGE && l.align() <= 4096 {
            // anonymous mappings are zero-filled; do not touch the pages
            return unsafe { huge_alloc(l.size()) };
        }
        unsafe { std::alloc::System.alloc_zeroed(l) }
    }
    unsafe fn dealloc(&self, p: *mut u8, l: std::alloc::Layout) {
        note_alloc(0, l.size());
        if l.size() >= HUGE && l.align() <= 4096 {
            unsafe { munmap(p, l.size()) };
            return;
        }
        unsafe { std::alloc::System.dealloc(p, l) }
    }
    unsafe fn realloc(&self, p: *mut u8, l: std::alloc::Layout, new: usize) -> *mut u8 {
        if (l.size() >= HUGE || new >= HUGE) && l.align() <= 4096 {
            // move between the two kinds of memory by hand
            let nl = unsafe { std::alloc::Layout::from_size_align_unchecked(new, l.align()) };
            let np = unsafe { self.alloc(nl) };
            if !np.is_null() {
                unsafe { std::ptr::copy_nonoverlapping(p, np, l.size().min(new)) };
                unsafe { self.dealloc(p, l) };
            }
            return np;
        }
        note_alloc(new, l.size());
        unsafe { std::alloc::System.realloc(p, l, new) }
    }
}

/// Runs `f` and returns (result, peak additional bytes allocated on this thread while it ran).
pub fn measure_alloc<T>(f: impl FnOnce() -> T) -> (T, usize) {
    let base = LIVE.with(|c| c.get());
    PEAK.with(|p| p.set(base));
    let r = f();
    let peak = PEAK.with(|p| p.get());
    (r, peak.saturating_sub(base))
}

pub fn hex(b: &[u8]) -> String {
    let mut s = String::with_capacity(b.len() * 2);
    for x in b {
        s.push_str(&format!("{:02x}", x));
    }
    s
}

pub fn unhex(s: &str) -> Vec<u8> {
    (0..s.len() / 2)
        .map(|i| u8::from_str_radix(&s[2 * i..2 * i + 2], 16).unwrap_or(0))
        .collect()
}

/// serde helper: Vec<u8> as hex string
pub mod hexbytes {
    use serde::{Deserialize, Deserializer, Serializer};
    pub fn serialize<S: Serializer>(b: &Vec<u8>, s: S) -> Result<S::Ok, S::Error> {
        s.serialize_str(&super::hex(b))
    }
    pub fn deserialize<'de, D: Deserializer<'de>>(d: D) -> Result<Vec<u8>, D::Error> {
        let s = String::deserialize(d)?;
        Ok(super::unhex(&s))
    }
}

/// Root of the verification tree: FV_ROOT (set by the driver to its own directory) or /verif.
pub fn root() -> String {
    std::env::var("FV_ROOT").ok().filter(|s| !s.is_empty()).unwrap_or_else(|| "/verif".into())
}
