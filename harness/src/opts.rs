//! Encoder option sets (serialisable mirror of `flac_codec::encode::Options`).

use flac_codec::encode::{Options, Window};
use flac_codec::metadata::{Application, Picture, PictureType, VorbisComment};
use proptest::prelude::*;
use serde::{Deserialize, Serialize};

#[derive(Serialize, Deserialize, Clone, Debug, Hash, PartialEq, Eq)]
pub enum Win {
    Rect,
    Hann,
    /// f32 bit pattern
    Tukey(u32),
}

#[derive(Serialize, Deserialize, Clone, Debug, Hash, PartialEq, Eq)]
pub enum Seek {
    None,
    Frames(u32),
    Seconds(u8),
    /// leave the crate default (10 s)
    Default,
}

#[derive(Serialize, Deserialize, Clone, Debug, Hash, PartialEq, Eq)]
pub struct EncOpts {
    pub block_size: u16,
    /// None = no LPC; Some(n) = max order n
    pub max_lpc: Option<u8>,
    pub max_part: u32,
    pub mid_side: bool,
    pub fast_corr: bool,
    pub window: Win,
    /// None = remove padding; Some(n) = padding(n) (n == 0 also removes);
    pub padding: Option<u32>,
    /// keep the crate's default padding untouched when true (ignores `padding`)
    pub default_padding: bool,
    pub seek: Seek,
    pub declare_total: bool,
    /// bit 0: comment, bit 1: picture, bit 2: application, bit 3: second application
    pub extra_meta: u8,
}

impl Default for EncOpts {
    fn default() -> Self {
        EncOpts {
            block_size: 4096,
            max_lpc: Some(8),
            max_part: 5,
            mid_side: true,
            fast_corr: false,
            window: Win::Tukey(0.5f32.to_bits()),
            padding: None,
            default_padding: true,
            seek: Seek::Default,
            declare_total: true,
            extra_meta: 0,
        }
    }
}

impl EncOpts {
    pub fn small(bs: u16) -> Self {
        EncOpts { block_size: bs, default_padding: false, padding: None, seek: Seek::None, ..Default::default() }
    }

    pub fn to_options(&self) -> Result<Options, String> {
        let mut o = Options::default()
            .block_size(self.block_size)
            .map_err(|e| format!("block_size: {e}"))?
            .max_lpc_order(self.max_lpc)
            .map_err(|e| format!("max_lpc_order: {e}"))?
            .max_partition_order(self.max_part)
            .map_err(|e| format!("max_partition_order: {e}"))?
            .mid_side(self.mid_side)
            .fast_channel_correlation(self.fast_corr)
            .window(match self.window {
                Win::Rect => Window::Rectangle,
                Win::Hann => Window::Hann,
                Win::Tukey(b) => Window::Tukey(f32::from_bits(b)),
            });
        if !self.default_padding {
            o = match self.padding {
                None => o.no_padding(),
                Some(n) => o.padding(n).map_err(|e| format!("padding: {e}"))?,
            };
        }
        o = match self.seek {
            Seek::None => o.no_seektable(),
            Seek::Frames(n) => o.seektable_frames(n as usize),
            Seek::Seconds(n) => o.seektable_seconds(n),
            Seek::Default => o,
        };
        if self.extra_meta & 1 != 0 {
            let mut vc = VorbisComment::default();
            vc.insert("TITLE", "x");
            vc.insert("ARTIST", "é\u{1F3B5}");
            o = o.comment(vc);
        }
        if self.extra_meta & 2 != 0 {
            o = o.picture(Picture {
                picture_type: PictureType::FrontCover,
                media_type: "image/png".into(),
                description: "d".into(),
                width: 1,
                height: 1,
                color_depth: 8,
                colors_used: None,
                data: vec![1, 2, 3, 4, 5],
            });
        }
        if self.extra_meta & 4 != 0 {
            o = o.application(Application { id: 0x41424344, data: vec![9; 7] });
        }
        if self.extra_meta & 8 != 0 {
            o = o.application(Application { id: 0x61696666, data: vec![] });
        }
        Ok(o)
    }
}

pub const BLOCK_SIZES: &[u16] =
    &[16, 17, 18, 31, 32, 64, 127, 128, 192, 255, 256, 257, 576, 1152, 4096, 4608, 16384, 65535];

pub const SMALL_BLOCK_SIZES: &[u16] = &[16, 17, 18, 20, 24, 31, 32, 33, 48, 64, 100, 127, 128, 192, 255, 256];

pub fn tukey_strategy() -> BoxedStrategy<u32> {
    prop_oneof![
        proptest::sample::select(
            &[-1.0f32, 0.0, 0.01, 0.5, 0.99, 1.0, 2.0, f32::NAN, f32::INFINITY, f32::NEG_INFINITY, 1e-30, 0.25][..]
        )
        .prop_map(|f| f.to_bits()),
        (0u32..=1000).prop_map(|x| (x as f32 / 1000.0).to_bits()),
    ]
    .boxed()
}

pub fn window_strategy() -> BoxedStrategy<Win> {
    prop_oneof![
        2 => Just(Win::Tukey(0.5f32.to_bits())),
        1 => Just(Win::Rect),
        1 => Just(Win::Hann),
        2 => tukey_strategy().prop_map(Win::Tukey),
    ]
    .boxed()
}

pub fn lpc_strategy() -> BoxedStrategy<Option<u8>> {
    prop_oneof![2 => Just(None), 2 => Just(Some(8u8)), 4 => (1u8..=32).prop_map(Some), 1 => Just(Some(32u8)), 1 => Just(Some(12u8))]
        .boxed()
}

pub fn seek_strategy() -> BoxedStrategy<Seek> {
    prop_oneof![
        3 => Just(Seek::None),
        2 => Just(Seek::Frames(1)),
        2 => (1u32..8).prop_map(Seek::Frames),
        2 => (1u8..4).prop_map(Seek::Seconds),
        1 => Just(Seek::Default),
    ]
    .boxed()
}

pub fn padding_strategy() -> BoxedStrategy<(bool, Option<u32>)> {
    prop_oneof![
        3 => Just((false, None)),
        1 => Just((true, None)),
        1 => Just((false, Some(0u32))),
        2 => (1u32..64).prop_map(|n| (false, Some(n))),
        1 => proptest::sample::select(&[17u32, 18, 19, 4096, 10000][..]).prop_map(|n| (false, Some(n))),
    ]
    .boxed()
}

/// Options with the block size supplied by the caller's strategy.
pub fn opts_strategy(block: BoxedStrategy<u16>) -> BoxedStrategy<EncOpts> {
    (
        block,
        lpc_strategy(),
        prop_oneof![2 => Just(5u32), 3 => 0u32..=6, 2 => 7u32..=15],
        any::<bool>(),
        any::<bool>(),
        window_strategy(),
        padding_strategy(),
        seek_strategy(),
        any::<bool>(),
        prop_oneof![4 => Just(0u8), 1 => 0u8..16],
    )
        .prop_map(
            |(block_size, max_lpc, max_part, mid_side, fast_corr, window, (default_padding, padding), seek, declare_total, extra_meta)| EncOpts {
                block_size,
                max_lpc,
                max_part,
                mid_side,
                fast_corr,
                window,
                padding,
                default_padding,
                seek,
                declare_total,
                extra_meta,
            },
        )
        .boxed()
}

pub fn small_block_strategy() -> BoxedStrategy<u16> {
    prop_oneof![4 => proptest::sample::select(SMALL_BLOCK_SIZES), 1 => 16u16..=256].boxed()
}

pub fn any_block_strategy() -> BoxedStrategy<u16> {
    prop_oneof![4 => proptest::sample::select(BLOCK_SIZES), 1 => 16u16..=65535, 2 => 16u16..=512].boxed()
}

/// Number of PCM frames for a given block size: q*bs + r with r biased to the interesting tails.
pub fn frames_strategy(bs: u16, max_blocks: u32) -> BoxedStrategy<u32> {
    let bs = bs as u32;
    (0..=max_blocks, prop_oneof![
        3 => Just(0u32),
        2 => 1u32..=4,
        2 => 1u32..=70,
        1 => Just(bs - 1),
        1 => Just(bs / 2),
        2 => 0..bs,
    ])
        .prop_map(move |(q, r)| {
            let r = r.min(bs - 1);
            let n = q * bs + r;
            if n == 0 { 1 } else { n }
        })
        .boxed()
}
