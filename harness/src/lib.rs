pub mod codec;
pub mod engine;
pub mod iow;
pub mod opts;
pub mod pcm;
pub mod props;
pub mod refdec;
pub mod util;
