//! Grammar generator for cue sheet texts, with the abstract layout each text describes.

use proptest::prelude::*;
use serde::{Deserialize, Serialize};

#[derive(Serialize, Deserialize, Clone, Debug, Hash, PartialEq, Eq)]
pub struct CueTrack {
    /// 12 characters: 2 letters, 3 alphanumerics, 7 digits
    pub isrc: Option<String>,
    pub pre_emphasis: bool,
    /// emit a FLAGS line with a single flag other than PRE (must not set pre-emphasis)
    pub other_flag: bool,
    pub has_pregap: bool,
    /// distance in CD frames (1/75 s) from the previous index point to each index of this track;
    /// the first entry of the first track is ignored (the first index is at 0)
    pub gaps: Vec<u32>,
}

#[derive(Serialize, Deserialize, Clone, Debug, Hash, PartialEq, Eq)]
pub struct CueStyle {
    pub crlf: bool,
    /// leading blanks/tabs chosen per line from this seed
    pub ws_seed: u32,
    pub quote_catalog: bool,
    pub quote_isrc: bool,
    pub isrc_dashes: bool,
    /// sprinkle REM / TITLE / PERFORMER / FILE lines
    pub noise: bool,
}

#[derive(Serialize, Deserialize, Clone, Debug, Hash, PartialEq, Eq)]
pub struct CueSpec {
    /// 13 digits
    pub catalog: Option<String>,
    pub tracks: Vec<CueTrack>,
    /// CD frames between the last index point and the lead-out (>= 1)
    pub tail: u32,
    pub style: CueStyle,
}

#[derive(Debug, Clone, PartialEq, Eq)]
pub struct ModelTrack {
    pub number: u8,
    pub isrc: Option<String>,
    pub pre_emphasis: bool,
    /// (index number, absolute position in samples)
    pub indices: Vec<(u8, u64)>,
}

#[derive(Debug, Clone, PartialEq, Eq)]
pub struct Model {
    pub catalog: Option<String>,
    pub tracks: Vec<ModelTrack>,
    pub total_samples: u64,
}

pub const SAMPLES_PER_FRAME: u64 = 588;

impl CueSpec {
    /// absolute positions in CD frames
    pub fn model(&self) -> Model {
        let mut pos: u64 = 0;
        let mut first = true;
        let mut tracks = vec![];
        for (ti, t) in self.tracks.iter().enumerate() {
            let mut indices = vec![];
            let mut num: u8 = if t.has_pregap { 0 } else { 1 };
            for g in &t.gaps {
                if first {
                    first = false;
                } else {
                    pos += (*g).max(1) as u64;
                }
                indices.push((num, pos * SAMPLES_PER_FRAME));
                num = num.wrapping_add(1);
            }
            tracks.push(ModelTrack { number: ti as u8 + 1, isrc: t.isrc.clone(), pre_emphasis: t.pre_emphasis, indices });
        }
        Model { catalog: self.catalog.clone(), tracks, total_samples: (pos + self.tail.max(1) as u64) * SAMPLES_PER_FRAME }
    }

    pub fn render(&self) -> String {
        let m = self.model();
        let nl = if self.style.crlf { "\r\n" } else { "\n" };
        let mut ws = self.style.ws_seed as u64 | 1;
        let mut pad = move || -> (&'static str, &'static str) {
            ws = ws.wrapping_mul(6364136223846793005).wrapping_add(1442695040888963407);
            let lead = ["", " ", "  ", "\t", "    ", " \t "][((ws >> 33) % 6) as usize];
            let trail = ["", "", " ", "\t", "  "][((ws >> 40) % 5) as usize];
            (lead, trail)
        };
        let mut s = String::new();
        let mut line = |s: &mut String, text: &str| {
            let (l, t) = pad();
            s.push_str(l);
            s.push_str(text);
            s.push_str(t);
            s.push_str(nl);
        };
        if self.style.noise {
            line(&mut s, "REM GENRE Test");
            line(&mut s, "PERFORMER \"Some One\"");
        }
        if let Some(c) = &m.catalog {
            if self.style.quote_catalog {
                line(&mut s, &format!("CATALOG \"{c}\""));
            } else {
                line(&mut s, &format!("CATALOG {c}"));
            }
        }
        line(&mut s, "FILE \"audio.wav\" WAVE");
        for (t, mt) in self.tracks.iter().zip(&m.tracks) {
            line(&mut s, &format!("TRACK {:02} AUDIO", mt.number));
            if self.style.noise {
                line(&mut s, &format!("TITLE \"Track {}\"", mt.number));
            }
            if t.pre_emphasis {
                line(&mut s, "FLAGS PRE");
            } else if t.other_flag {
                line(&mut s, "FLAGS DCP");
            }
            if let Some(i) = &mt.isrc {
                let shown = if self.style.isrc_dashes { format!("{}-{}-{}-{}", &i[0..2], &i[2..5], &i[5..7], &i[7..12]) } else { i.clone() };
                if self.style.quote_isrc {
                    line(&mut s, &format!("ISRC \"{shown}\""));
                } else {
                    line(&mut s, &format!("ISRC {shown}"));
                }
            }
            for (n, p) in &mt.indices {
                let f = p / SAMPLES_PER_FRAME;
                line(&mut s, &format!("INDEX {:02} {:02}:{:02}:{:02}", n, f / 75 / 60, (f / 75) % 60, f % 75));
            }
        }
        s
    }
}

pub fn isrc_strategy() -> BoxedStrategy<String> {
    "[A-Z]{2}[A-Z0-9]{3}[0-9]{7}".boxed()
}

pub fn gap_strategy() -> BoxedStrategy<u32> {
    prop_oneof![
        4 => 1u32..10,
        4 => 1u32..20_000,
        2 => 1u32..400_000,
        1 => Just(1u32),
        1 => 4_000_000u32..400_000_000,
    ]
    .boxed()
}

pub fn track_strategy(max_indices: usize) -> BoxedStrategy<CueTrack> {
    (
        proptest::option::weighted(0.4, isrc_strategy()),
        prop_oneof![3 => Just(false), 1 => Just(true)],
        any::<bool>(),
        any::<bool>(),
        prop_oneof![10 => 1usize..=3, 4 => 1usize..=12, 2 => 1usize..=max_indices, 1 => Just(max_indices)],
    )
        .prop_flat_map(|(isrc, pre_emphasis, other_flag, has_pregap, n)| {
            // a pre-gap needs INDEX 01 as well
            let n = if has_pregap { n.max(2) } else { n };
            proptest::collection::vec(gap_strategy(), n).prop_map(move |gaps| CueTrack {
                isrc: isrc.clone(),
                pre_emphasis,
                other_flag,
                has_pregap,
                gaps,
            })
        })
        .boxed()
}

pub fn style_strategy() -> BoxedStrategy<CueStyle> {
    (any::<bool>(), any::<u32>(), any::<bool>(), any::<bool>(), any::<bool>(), any::<bool>())
        .prop_map(|(crlf, ws_seed, quote_catalog, quote_isrc, isrc_dashes, noise)| CueStyle { crlf, ws_seed, quote_catalog, quote_isrc, isrc_dashes, noise })
        .boxed()
}

pub fn spec_strategy(max_tracks: usize, max_indices: usize) -> BoxedStrategy<CueSpec> {
    (
        proptest::option::weighted(
            0.5,
            prop_oneof![
                6 => "[0-9]{13}",
                1 => Just("0000000000000".to_string()),
                1 => Just("9999999999999".to_string()),
                1 => "0{1,12}[0-9]{12}".prop_map(|t| t[t.len() - 13..].to_string()),
            ],
        ),
        prop_oneof![4 => 1usize..=5, 3 => 3usize..=20, 1 => 1usize..=max_tracks, 1 => Just(max_tracks)],
        1u32..100_000,
        style_strategy(),
    )
        .prop_flat_map(move |(catalog, n, tail, style)| {
            proptest::collection::vec(track_strategy(max_indices), n).prop_map(move |tracks| CueSpec { catalog: catalog.clone(), tracks, tail, style: style.clone() })
        })
        .boxed()
}
