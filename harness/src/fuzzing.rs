//! Entry points shared by the libFuzzer targets (harness/fuzz) and `fv fuzz-replay`:
//! each maps raw fuzzer bytes to an oracle evaluation.

use crate::engine::Outcome;
use crate::framegen::{self, ByteChooser, Chooser, HeaderChoice};
use crate::mutant::{self, N_CLASSES};
use crate::props::{c04, c12};
use crate::refdec::{self, Cfg};
use crate::util::guarded;
use flac_codec::metadata::Cuesheet;

pub const TARGETS: &[&str] = &["dec_raw", "dec_struct", "frame_struct", "meta_raw", "cue_text", "picture", "streamreader"];

/// Builds a (possibly mutated) stream from fuzzer bytes through the structure-aware generator.
pub fn struct_stream(data: &[u8]) -> Vec<u8> {
    let mut ch = ByteChooser { data, pos: 0 };
    let max_bs = 16 + ch.below(120) as u32;
    let mut gs = framegen::gen_stream(&mut ch, ch_low(data), 1 + (data.len() % 3), max_bs);
    let nm = ch.below(4);
    for _ in 0..nm {
        let class = ch.below(N_CLASSES);
        let fi = ch.below(gs.irs.len() as u64) as usize;
        let _ = mutant::mutate(&mut gs, &mut ch, class, fi);
    }
    mutant::reserialize(&mut gs);
    gs.bytes
}

fn ch_low(data: &[u8]) -> bool {
    data.first().map(|b| b % 16 == 0).unwrap_or(false)
}

pub fn run_target(name: &str, data: &[u8]) -> Outcome {
    let mut out = Outcome::new();
    out.evals = 0;
    match name {
        "dec_raw" => {
            c04::exercise_file(data, &mut out);
            c04::exercise_frames(data, None, &mut out);
        }
        "dec_struct" => {
            let bytes = struct_stream(data);
            c04::exercise_file(&bytes, &mut out);
            let si = c04::streaminfo_of(&bytes);
            if let Ok((d, _)) = refdec::decode_partial(&bytes, &Cfg::LENIENT) {
                if bytes.len() > d.first_frame {
                    c04::exercise_frames(&bytes[d.first_frame..], si.as_ref(), &mut out);
                }
            }
        }
        "frame_struct" => {
            // one bare frame: parser and decoder must agree, nothing may panic
            let mut ch = ByteChooser { data, pos: 0 };
            let p = framegen::StreamParams {
                channels: 1 + ch.below(8) as u8,
                bps: [8u8, 12, 16, 20, 24, 32][ch.below(6) as usize],
                rate: [44100u32, 8000, 96000, 12345, 1000][ch.below(5) as usize],
            };
            let bs = 1 + ch.below(96) as usize;
            let pcm = framegen::gen_pcm(&mut ch, p.channels, p.bps, bs);
            let hc = HeaderChoice { variable: ch.chance(1, 2), number: ch.below(1 << 20), number_len: 0, allow_streaminfo_codes: false };
            let ir = framegen::gen_frame(&mut ch, &p, &pcm, &hc);
            let mut gs = framegen::GenStream {
                bytes: vec![],
                params: p,
                pcm,
                first_frame: 0,
                frames: vec![],
                irs: vec![ir],
                labels: vec![],
                md5: framegen::Md5Mode::Zero,
                total_known: false,
                min_bs: 16,
                max_bs: 16,
                streaminfo: vec![],
            };
            if ch.chance(2, 3) {
                let class = ch.below(31); // frame-level classes only
                let _ = mutant::mutate(&mut gs, &mut ch, class, 0);
            }
            let bytes = framegen::serialize_frame(&gs.irs[0]);
            c04::exercise_frames(&bytes, None, &mut out);
        }
        "meta_raw" => c12::exercise_metadata(data, &mut out),
        "cue_text" => {
            let text = String::from_utf8_lossy(data);
            let mut t = c12::Tot { out: &mut out, len: data.len() };
            for total in [0u64, 588 * 400_000, u64::MAX, 588 * 400_000 + 1] {
                if let Some(Some(cs)) = t.run("Cuesheet::parse", || Cuesheet::parse(total, &text).ok()) {
                    c12::exercise_cuesheet(&cs, &mut t);
                }
            }
        }
        "picture" => {
            let mut t = c12::Tot { out: &mut out, len: data.len() };
            t.run("Picture::new", || flac_codec::metadata::Picture::new(flac_codec::metadata::PictureType::Other, "", data.to_vec()).is_ok());
        }
        "streamreader" => c04::exercise_frames(data, None, &mut out),
        _ => out.infra.push(format!("unknown fuzz target {name}")),
    }
    let _ = guarded(|| ());
    out
}
