//! Independent serialiser / parser for the seven FLAC metadata block types, written from
//! RFC 9639 section 8 only (big-endian fields, little-endian Vorbis lengths, 24-bit sizes).

use serde::{Deserialize, Serialize};

#[derive(Serialize, Deserialize, Clone, Debug, Hash, PartialEq, Eq)]
pub struct RIndex {
    pub offset: u64,
    pub number: u8,
    /// 3 reserved bytes (zero in files the crate writes)
    pub reserved: [u8; 3],
}

#[derive(Serialize, Deserialize, Clone, Debug, Hash, PartialEq, Eq)]
pub struct RTrack {
    pub offset: u64,
    pub number: u8,
    pub isrc: [u8; 12],
    pub non_audio: bool,
    pub pre_emphasis: bool,
    /// 6 reserved bits + 13 reserved bytes, stored as 14 bytes whose first byte uses the low 6 bits
    pub reserved: Vec<u8>,
    pub indices: Vec<RIndex>,
}

#[derive(Serialize, Deserialize, Clone, Debug, Hash, PartialEq, Eq)]
pub enum RBlock {
    Streaminfo { min_bs: u16, max_bs: u16, min_fs: u32, max_fs: u32, rate: u32, channels: u8, bps: u8, total: u64, md5: [u8; 16] },
    Padding { len: u32, fill: u8 },
    Application { id: u32, data: Vec<u8> },
    SeekTable { points: Vec<(u64, u64, u16)> },
    Vorbis { vendor: Vec<u8>, fields: Vec<Vec<u8>> },
    Cuesheet { catalog: Vec<u8>, lead_in: u64, is_cd: bool, reserved: Vec<u8>, tracks: Vec<RTrack> },
    Picture { ptype: u32, mime: Vec<u8>, desc: Vec<u8>, width: u32, height: u32, depth: u32, colors: u32, data: Vec<u8> },
    Unknown { ty: u8, data: Vec<u8> },
}

impl RBlock {
    pub fn type_code(&self) -> u8 {
        match self {
            RBlock::Streaminfo { .. } => 0,
            RBlock::Padding { .. } => 1,
            RBlock::Application { .. } => 2,
            RBlock::SeekTable { .. } => 3,
            RBlock::Vorbis { .. } => 4,
            RBlock::Cuesheet { .. } => 5,
            RBlock::Picture { .. } => 6,
            RBlock::Unknown { ty, .. } => *ty,
        }
    }

    pub fn payload(&self) -> Vec<u8> {
        let mut b = vec![];
        match self {
            RBlock::Streaminfo { min_bs, max_bs, min_fs, max_fs, rate, channels, bps, total, md5 } => {
                b.extend_from_slice(&min_bs.to_be_bytes());
                b.extend_from_slice(&max_bs.to_be_bytes());
                b.extend_from_slice(&min_fs.to_be_bytes()[1..]);
                b.extend_from_slice(&max_fs.to_be_bytes()[1..]);
                let x: u64 = ((*rate as u64 & 0xFFFFF) << 44)
                    | (((*channels as u64).wrapping_sub(1) & 7) << 41)
                    | (((*bps as u64).wrapping_sub(1) & 31) << 36)
                    | (*total & ((1 << 36) - 1));
                b.extend_from_slice(&x.to_be_bytes());
                b.extend_from_slice(md5);
            }
            RBlock::Padding { len, fill } => b.extend(std::iter::repeat_n(*fill, *len as usize)),
            RBlock::Application { id, data } => {
                b.extend_from_slice(&id.to_be_bytes());
                b.extend_from_slice(data);
            }
            RBlock::SeekTable { points } => {
                for (s, o, n) in points {
                    b.extend_from_slice(&s.to_be_bytes());
                    b.extend_from_slice(&o.to_be_bytes());
                    b.extend_from_slice(&n.to_be_bytes());
                }
            }
            RBlock::Vorbis { vendor, fields } => {
                b.extend_from_slice(&(vendor.len() as u32).to_le_bytes());
                b.extend_from_slice(vendor);
                b.extend_from_slice(&(fields.len() as u32).to_le_bytes());
                for f in fields {
                    b.extend_from_slice(&(f.len() as u32).to_le_bytes());
                    b.extend_from_slice(f);
                }
            }
            RBlock::Cuesheet { catalog, lead_in, is_cd, reserved, tracks } => {
                let mut c = [0u8; 128];
                for (o, i) in c.iter_mut().zip(catalog) {
                    *o = *i;
                }
                b.extend_from_slice(&c);
                b.extend_from_slice(&lead_in.to_be_bytes());
                // 1 bit is_cd + 7 reserved bits + 258 reserved bytes
                let mut r = [0u8; 259];
                for (o, i) in r.iter_mut().zip(reserved) {
                    *o = *i;
                }
                r[0] = (r[0] & 0x7F) | if *is_cd { 0x80 } else { 0 };
                b.extend_from_slice(&r);
                b.push(tracks.len() as u8);
                for t in tracks {
                    b.extend_from_slice(&t.offset.to_be_bytes());
                    b.push(t.number);
                    b.extend_from_slice(&t.isrc);
                    let mut r = [0u8; 14];
                    for (o, i) in r.iter_mut().zip(&t.reserved) {
                        *o = *i;
                    }
                    r[0] = (r[0] & 0x3F) | if t.non_audio { 0x80 } else { 0 } | if t.pre_emphasis { 0x40 } else { 0 };
                    b.extend_from_slice(&r);
                    b.push(t.indices.len() as u8);
                    for i in &t.indices {
                        b.extend_from_slice(&i.offset.to_be_bytes());
                        b.push(i.number);
                        b.extend_from_slice(&i.reserved);
                    }
                }
            }
            RBlock::Picture { ptype, mime, desc, width, height, depth, colors, data } => {
                b.extend_from_slice(&ptype.to_be_bytes());
                b.extend_from_slice(&(mime.len() as u32).to_be_bytes());
                b.extend_from_slice(mime);
                b.extend_from_slice(&(desc.len() as u32).to_be_bytes());
                b.extend_from_slice(desc);
                for x in [width, height, depth, colors] {
                    b.extend_from_slice(&x.to_be_bytes());
                }
                b.extend_from_slice(&(data.len() as u32).to_be_bytes());
                b.extend_from_slice(data);
            }
            RBlock::Unknown { data, .. } => b.extend_from_slice(data),
        }
        b
    }
}

pub fn header(last: bool, ty: u8, len: usize) -> [u8; 4] {
    [(if last { 0x80 } else { 0 }) | (ty & 0x7F), (len >> 16) as u8, (len >> 8) as u8, len as u8]
}

/// "fLaC" + blocks (the last flag on the final block)
pub fn serialize(blocks: &[RBlock]) -> Vec<u8> {
    let mut out = b"fLaC".to_vec();
    let n = blocks.len();
    for (i, b) in blocks.iter().enumerate() {
        let p = b.payload();
        out.extend_from_slice(&header(i + 1 == n, b.type_code(), p.len()));
        out.extend_from_slice(&p);
    }
    out
}

fn be(d: &[u8]) -> u64 {
    d.iter().fold(0u64, |a, b| (a << 8) | *b as u64)
}

struct Rd<'a> {
    d: &'a [u8],
    p: usize,
}
impl<'a> Rd<'a> {
    fn take(&mut self, n: usize) -> Result<&'a [u8], String> {
        if self.p + n > self.d.len() {
            return Err(format!("block payload too short: need {} bytes at {}, have {}", n, self.p, self.d.len()));
        }
        let s = &self.d[self.p..self.p + n];
        self.p += n;
        Ok(s)
    }
    fn u(&mut self, n: usize) -> Result<u64, String> {
        Ok(be(self.take(n)?))
    }
    fn le32(&mut self) -> Result<u32, String> {
        let s = self.take(4)?;
        Ok(u32::from_le_bytes([s[0], s[1], s[2], s[3]]))
    }
}

pub fn parse_payload(ty: u8, d: &[u8]) -> Result<RBlock, String> {
    let mut r = Rd { d, p: 0 };
    let b = match ty {
        0 => {
            if d.len() != 34 {
                return Err(format!("STREAMINFO of {} bytes", d.len()));
            }
            let min_bs = r.u(2)? as u16;
            let max_bs = r.u(2)? as u16;
            let min_fs = r.u(3)? as u32;
            let max_fs = r.u(3)? as u32;
            let x = r.u(8)?;
            let mut md5 = [0u8; 16];
            md5.copy_from_slice(r.take(16)?);
            RBlock::Streaminfo {
                min_bs,
                max_bs,
                min_fs,
                max_fs,
                rate: (x >> 44) as u32,
                channels: ((x >> 41) & 7) as u8 + 1,
                bps: ((x >> 36) & 31) as u8 + 1,
                total: x & ((1 << 36) - 1),
                md5,
            }
        }
        1 => RBlock::Padding { len: d.len() as u32, fill: d.first().copied().unwrap_or(0) },
        2 => {
            let id = r.u(4)? as u32;
            RBlock::Application { id, data: d[4..].to_vec() }
        }
        3 => {
            if d.len() % 18 != 0 {
                return Err("SEEKTABLE size not a multiple of 18".into());
            }
            let mut points = vec![];
            while r.p < d.len() {
                points.push((r.u(8)?, r.u(8)?, r.u(2)? as u16));
            }
            RBlock::SeekTable { points }
        }
        4 => {
            let vl = r.le32()? as usize;
            let vendor = r.take(vl)?.to_vec();
            let n = r.le32()? as usize;
            let mut fields = vec![];
            for _ in 0..n {
                let l = r.le32()? as usize;
                fields.push(r.take(l)?.to_vec());
            }
            RBlock::Vorbis { vendor, fields }
        }
        5 => {
            let catalog = r.take(128)?.to_vec();
            let lead_in = r.u(8)?;
            let res = r.take(259)?.to_vec();
            let is_cd = res[0] & 0x80 != 0;
            let nt = r.u(1)? as usize;
            let mut tracks = vec![];
            for _ in 0..nt {
                let offset = r.u(8)?;
                let number = r.u(1)? as u8;
                let mut isrc = [0u8; 12];
                isrc.copy_from_slice(r.take(12)?);
                let rs = r.take(14)?.to_vec();
                let ni = r.u(1)? as usize;
                let mut indices = vec![];
                for _ in 0..ni {
                    let offset = r.u(8)?;
                    let number = r.u(1)? as u8;
                    let rv = r.take(3)?;
                    indices.push(RIndex { offset, number, reserved: [rv[0], rv[1], rv[2]] });
                }
                let mut reserved = rs.clone();
                reserved[0] &= 0x3F;
                tracks.push(RTrack { offset, number, isrc, non_audio: rs[0] & 0x80 != 0, pre_emphasis: rs[0] & 0x40 != 0, reserved, indices });
            }
            let mut reserved = res.clone();
            reserved[0] &= 0x7F;
            RBlock::Cuesheet { catalog, lead_in, is_cd, reserved, tracks }
        }
        6 => {
            let ptype = r.u(4)? as u32;
            let ml = r.u(4)? as usize;
            let mime = r.take(ml)?.to_vec();
            let dl = r.u(4)? as usize;
            let desc = r.take(dl)?.to_vec();
            let width = r.u(4)? as u32;
            let height = r.u(4)? as u32;
            let depth = r.u(4)? as u32;
            let colors = r.u(4)? as u32;
            let n = r.u(4)? as usize;
            let data = r.take(n)?.to_vec();
            RBlock::Picture { ptype, mime, desc, width, height, depth, colors, data }
        }
        t => RBlock::Unknown { ty: t, data: d.to_vec() },
    };
    if !matches!(ty, 1 | 2) && ty <= 6 && r.p != d.len() {
        return Err(format!("{} stray bytes at the end of a type-{} block", d.len() - r.p, ty));
    }
    Ok(b)
}

/// Parses "fLaC" + blocks; returns the blocks and the offset just past the last block.
pub fn parse(d: &[u8]) -> Result<(Vec<RBlock>, usize), String> {
    if d.len() < 4 || &d[..4] != b"fLaC" {
        return Err("missing fLaC marker".into());
    }
    let mut p = 4;
    let mut out = vec![];
    loop {
        if p + 4 > d.len() {
            return Err("eof in block header".into());
        }
        let last = d[p] & 0x80 != 0;
        let ty = d[p] & 0x7F;
        let len = be(&d[p + 1..p + 4]) as usize;
        p += 4;
        if p + len > d.len() {
            return Err("eof in block".into());
        }
        out.push(parse_payload(ty, &d[p..p + len])?);
        p += len;
        if last {
            break;
        }
    }
    Ok((out, p))
}
