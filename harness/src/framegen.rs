//! Independent, structure-aware FLAC stream generator ("independent encoder").
//!
//! Written from RFC 9639 only; shares no code with the crate. Every syntactic alternative of the
//! frame grammar is chosen through a `Chooser` (seeded PRNG for proptest, fuzzer bytes for
//! libFuzzer). Streams are valid by construction; `mutate` then forces fields of the
//! intermediate representation to illegal/extreme values before serialisation, with both
//! checksums recomputed afterwards so the malformed field reaches the parser.

use crate::pcm::{Rng, max_of, min_of};
use crate::refdec::{crc8, crc16};

pub trait Chooser {
    /// uniform-ish value in 0..n (n >= 1)
    fn below(&mut self, n: u64) -> u64;
    fn bits(&mut self) -> u64 {
        self.below(u64::MAX)
    }
    fn chance(&mut self, num: u64, den: u64) -> bool {
        self.below(den) < num
    }
}

impl Chooser for Rng {
    fn below(&mut self, n: u64) -> u64 {
        if n <= 1 { 0 } else { self.next() % n }
    }
}

/// Chooser over fuzzer-provided bytes: consumes as few bytes as the range needs; returns 0 when
/// the data is exhausted (so the all-defaults stream is always reachable).
pub struct ByteChooser<'a> {
    pub data: &'a [u8],
    pub pos: usize,
}
impl Chooser for ByteChooser<'_> {
    fn below(&mut self, n: u64) -> u64 {
        if n <= 1 {
            return 0;
        }
        let need = ((64 - (n - 1).leading_zeros()) as usize).div_ceil(8);
        let mut v: u64 = 0;
        for _ in 0..need {
            let b = if self.pos < self.data.len() { self.data[self.pos] } else { 0 };
            self.pos += 1;
            v = (v << 8) | b as u64;
        }
        v % n
    }
}

// ---------------------------------------------------------------------------------------------
// bit writer

#[derive(Default, Clone)]
pub struct BitW {
    pub bytes: Vec<u8>,
    pub nbits: u64,
}
impl BitW {
    pub fn put(&mut self, n: u32, v: u64) {
        if n == 0 {
            return;
        }
        // fast path: byte-aligned whole bytes
        if self.nbits % 8 == 0 && n % 8 == 0 {
            for i in (0..n / 8).rev() {
                self.bytes.push((v >> (8 * i)) as u8);
            }
            self.nbits += n as u64;
            return;
        }
        for i in (0..n).rev() {
            let bit = ((v >> i) & 1) as u8;
            if self.nbits % 8 == 0 {
                self.bytes.push(0);
            }
            let last = self.bytes.len() - 1;
            self.bytes[last] |= bit << (7 - (self.nbits % 8));
            self.nbits += 1;
        }
    }
    pub fn put_signed(&mut self, n: u32, v: i64) {
        if n == 0 {
            return;
        }
        let mask = if n >= 64 { u64::MAX } else { (1u64 << n) - 1 };
        self.put(n, (v as u64) & mask);
    }
    /// `zeros` zero bits followed by a one
    pub fn unary(&mut self, zeros: u64) {
        // generator safety net: never emit more than 2^24 bits for one code word
        let mut z = zeros.min(1 << 24);
        // align, then whole zero bytes at once
        while z > 0 && self.nbits % 8 != 0 {
            self.put(1, 0);
            z -= 1;
        }
        if z >= 8 {
            let nb = (z / 8) as usize;
            self.bytes.resize(self.bytes.len() + nb, 0);
            self.nbits += nb as u64 * 8;
            z %= 8;
        }
        self.put(z as u32, 0);
        self.put(1, 1);
    }
    pub fn aligned(&self) -> bool {
        self.nbits % 8 == 0
    }
    pub fn pad_to_byte(&mut self, fill: u8) {
        let mut i = 0;
        while !self.aligned() {
            self.put(1, ((fill >> (i % 8)) & 1) as u64);
            i += 1;
        }
    }
}

// ---------------------------------------------------------------------------------------------
// intermediate representation

#[derive(Clone, Debug)]
pub struct PartIR {
    /// raw Rice parameter field (4 or 5 bits)
    pub param: u8,
    /// Some(width) = escaped partition with that raw 5-bit width
    pub escape: Option<u8>,
    pub values: Vec<i64>,
}

#[derive(Clone, Debug)]
pub struct ResIR {
    /// raw 2-bit coding method
    pub method: u8,
    /// raw 4-bit partition order
    pub part_order: u8,
    pub parts: Vec<PartIR>,
}

#[derive(Clone, Debug)]
pub enum SubBody {
    Constant(i64),
    Verbatim(Vec<i64>),
    Fixed { warm: Vec<i64>, res: ResIR },
    Lpc { warm: Vec<i64>, prec_code: u8, shift_raw: u8, coef_bits: u32, coefs: Vec<i64>, res: ResIR },
}

#[derive(Clone, Debug)]
pub struct SubIR {
    pub pad_bit: u8,
    /// raw 6-bit type code
    pub type_code: u8,
    /// wasted bits (0 = flag clear)
    pub wasted: u32,
    /// width used for constant / verbatim / warm-up samples
    pub eff_bits: u32,
    pub body: SubBody,
}

#[derive(Clone, Debug)]
pub struct FrameIR {
    pub sync: u16,
    pub reserved1: u8,
    pub variable: bool,
    pub bs_code: u8,
    pub rate_code: u8,
    pub chan_code: u8,
    pub bps_code: u8,
    pub reserved2: u8,
    pub number: u64,
    /// 0 = minimal length; 1..=7 forces that many bytes (over-long when larger than needed)
    pub number_len: u8,
    /// raw override of the coded number bytes (malformed numbers)
    pub number_raw: Option<Vec<u8>>,
    /// (bits, raw value) of the trailing block-size field
    pub bs_extra: Option<(u32, u64)>,
    pub rate_extra: Option<(u32, u64)>,
    pub crc8_xor: u8,
    pub subs: Vec<SubIR>,
    pub pad_fill: u8,
    pub crc16_xor: u16,
    /// bookkeeping (not serialised)
    pub bs: u32,
    pub labels: Vec<&'static str>,
}

pub fn coded_number(n: u64, force_len: u8) -> Vec<u8> {
    let min_len = match n {
        0..=0x7F => 1,
        0x80..=0x7FF => 2,
        0x800..=0xFFFF => 3,
        0x1_0000..=0x1F_FFFF => 4,
        0x20_0000..=0x3FF_FFFF => 5,
        0x400_0000..=0x7FFF_FFFF => 6,
        _ => 7,
    };
    let len = if force_len == 0 { min_len } else { (force_len as usize).max(min_len).min(7) };
    if len == 1 {
        return vec![n as u8];
    }
    let mut out = vec![0u8; len];
    let mut v = n;
    for i in (1..len).rev() {
        out[i] = 0x80 | (v & 0x3F) as u8;
        v >>= 6;
    }
    let lead_mask: u8 = match len {
        2 => 0xC0,
        3 => 0xE0,
        4 => 0xF0,
        5 => 0xF8,
        6 => 0xFC,
        _ => 0xFE,
    };
    let payload_bits = 7 - len as u32; // bits available in the lead byte
    let lead_payload = if payload_bits == 0 { 0 } else { (v as u8) & ((1u8 << payload_bits) - 1) };
    out[0] = lead_mask | lead_payload;
    out
}

fn write_res(w: &mut BitW, r: &ResIR) {
    w.put(2, r.method as u64);
    w.put(4, r.part_order as u64);
    let pbits = if r.method & 1 == 0 { 4 } else { 5 };
    for p in &r.parts {
        w.put(pbits, p.param as u64);
        match p.escape {
            Some(width) => {
                w.put(5, width as u64);
                for v in &p.values {
                    w.put_signed(width as u32, *v);
                }
            }
            None => {
                let k = p.param as u32;
                for v in &p.values {
                    let zz: u64 = if *v < 0 { (((-(*v + 1)) as u64) << 1) | 1 } else { (*v as u64) << 1 };
                    w.unary(zz >> k);
                    w.put(k, zz & ((1u64 << k) - 1));
                }
            }
        }
    }
}

pub fn serialize_frame(f: &FrameIR) -> Vec<u8> {
    let mut w = BitW::default();
    w.put(14, f.sync as u64);
    w.put(1, f.reserved1 as u64);
    w.put(1, f.variable as u64);
    w.put(4, f.bs_code as u64);
    w.put(4, f.rate_code as u64);
    w.put(4, f.chan_code as u64);
    w.put(3, f.bps_code as u64);
    w.put(1, f.reserved2 as u64);
    let num = match &f.number_raw {
        Some(r) => r.clone(),
        None => coded_number(f.number, f.number_len),
    };
    for b in num {
        w.put(8, b as u64);
    }
    if let Some((n, v)) = f.bs_extra {
        w.put(n, v);
    }
    if let Some((n, v)) = f.rate_extra {
        w.put(n, v);
    }
    let c8 = crc8(&w.bytes) ^ f.crc8_xor;
    w.put(8, c8 as u64);
    for s in &f.subs {
        w.put(1, s.pad_bit as u64);
        w.put(6, s.type_code as u64);
        if s.wasted == 0 {
            w.put(1, 0);
        } else {
            w.put(1, 1);
            w.unary(s.wasted as u64 - 1);
        }
        match &s.body {
            SubBody::Constant(v) => w.put_signed(s.eff_bits, *v),
            SubBody::Verbatim(vs) => {
                for v in vs {
                    w.put_signed(s.eff_bits, *v);
                }
            }
            SubBody::Fixed { warm, res } => {
                for v in warm {
                    w.put_signed(s.eff_bits, *v);
                }
                write_res(&mut w, res);
            }
            SubBody::Lpc { warm, prec_code, shift_raw, coef_bits, coefs, res } => {
                for v in warm {
                    w.put_signed(s.eff_bits, *v);
                }
                w.put(4, *prec_code as u64);
                w.put(5, *shift_raw as u64);
                for c in coefs {
                    w.put_signed(*coef_bits, *c);
                }
                write_res(&mut w, res);
            }
        }
    }
    w.pad_to_byte(f.pad_fill);
    let c16 = crc16(&w.bytes) ^ f.crc16_xor;
    w.put(16, c16 as u64);
    w.bytes
}

// ---------------------------------------------------------------------------------------------
// valid-by-construction generation

pub const BS_TABLE: [u32; 16] = [0, 192, 576, 1152, 2304, 4608, 0, 0, 256, 512, 1024, 2048, 4096, 8192, 16384, 32768];
pub const RATE_TABLE: [u32; 12] = [0, 88200, 176400, 192000, 8000, 16000, 22050, 24000, 32000, 44100, 48000, 96000];

fn bits_needed_signed(v: i64) -> u32 {
    // minimal two's complement width (>= 1)
    if v >= 0 { 65 - v.leading_zeros() } else { 65 - (!v).leading_zeros() }
}

fn zigzag(v: i64) -> u64 {
    if v < 0 { (((-(v + 1)) as u64) << 1) | 1 } else { (v as u64) << 1 }
}

pub const MAX_UNARY: u64 = 1 << 12;

/// Builds the residual coding of `res` (already known to be legal values) for a block of
/// `bs` samples and predictor `order`. Returns None when no legal coding exists under `method`.
fn gen_res(ch: &mut dyn Chooser, res: &[i64], bs: usize, order: usize, labels: &mut Vec<&'static str>) -> Option<ResIR> {
    // legal partition orders
    let mut legal = vec![];
    for po in 0..=15u32 {
        let parts = 1usize << po;
        if bs % parts != 0 {
            break;
        }
        if (bs >> po) <= order {
            break;
        }
        legal.push(po);
    }
    if legal.is_empty() {
        return None;
    }
    // bias towards small orders but reach the maximum regularly
    let po = if ch.chance(1, 4) { *legal.last().unwrap() } else { legal[ch.below(legal.len() as u64) as usize] };
    let nparts = 1usize << po;
    let plen = bs >> po;
    let mut method: u8 = if ch.chance(1, 2) { 1 } else { 0 };
    let mut parts: Vec<PartIR> = Vec::with_capacity(nparts);
    let mut off = 0usize;
    let mut escapes = false;
    let mut big_param = false;
    // first pass under the chosen method; if a partition cannot be coded with 4-bit parameters, restart with method 1
    'retry: loop {
        parts.clear();
        off = 0;
        escapes = false;
        big_param = false;
        let kmax: u32 = if method == 0 { 14 } else { 30 };
        for p in 0..nparts {
            let n = if p == 0 { plen - order } else { plen };
            let vals = &res[off..off + n];
            off += n;
            let maxzz = vals.iter().map(|v| zigzag(*v)).max().unwrap_or(0);
            let need = vals.iter().map(|v| bits_needed_signed(*v)).max().unwrap_or(0);
            let all_zero = vals.iter().all(|v| *v == 0);
            // smallest parameter keeping the unary part bounded
            let mut kmin = 0u32;
            while kmin < 40 && (maxzz >> kmin) > MAX_UNARY {
                kmin += 1;
            }
            let can_rice = kmin <= kmax;
            let esc_min = if all_zero { 0 } else { need };
            let can_escape = esc_min <= 31;
            if !can_rice && !can_escape {
                if method == 0 {
                    method = 1;
                    continue 'retry;
                }
                return None;
            }
            let use_escape = can_escape && (!can_rice || ch.chance(1, 5));
            if use_escape {
                escapes = true;
                let width = if ch.chance(1, 2) { esc_min } else { esc_min + ch.below((32 - esc_min) as u64) as u32 };
                if width == 0 {
                    labels.push("escape-width-0");
                }
                parts.push(PartIR { param: if method == 0 { 15 } else { 31 }, escape: Some(width as u8), values: vals.to_vec() });
            } else {
                let k = if ch.chance(1, 3) { kmin } else { kmin + ch.below((kmax - kmin + 1) as u64) as u32 };
                if k >= 15 {
                    big_param = true;
                }
                parts.push(PartIR { param: k as u8, escape: None, values: vals.to_vec() });
            }
        }
        break;
    }
    let _ = off;
    if escapes {
        labels.push("escape");
    }
    if big_param {
        labels.push("rice-param>=15");
    }
    if method == 1 {
        labels.push("method1");
    }
    if po > 0 {
        labels.push("partitioned");
    }
    if po >= 8 {
        labels.push("part-order>=8");
    }
    Some(ResIR { method, part_order: po as u8, parts })
}

fn residuals_ok(r: &[i64]) -> bool {
    r.iter().all(|v| *v > i32::MIN as i64 && *v <= i32::MAX as i64)
}

pub const FIXED_COEFS: [&[i64]; 5] = [&[], &[1], &[2, -1], &[3, -3, 1], &[4, -6, 4, -1]];

fn predict_residuals(s: &[i64], coefs: &[i64], shift: u32) -> Option<Vec<i64>> {
    let order = coefs.len();
    let mut r = Vec::with_capacity(s.len() - order);
    for i in order..s.len() {
        let mut p: i128 = 0;
        for (j, c) in coefs.iter().enumerate() {
            p += (*c as i128) * (s[i - 1 - j] as i128);
        }
        if p > i64::MAX as i128 || p < i64::MIN as i128 {
            return None;
        }
        let pred = (p as i64) >> shift;
        r.push(s[i].checked_sub(pred)?);
    }
    Some(r)
}

/// Generates one subframe for `s` (values fit `bps` bits).
pub fn gen_subframe(ch: &mut dyn Chooser, s: &[i64], bps: u32, labels: &mut Vec<&'static str>, is_side: bool) -> SubIR {
    let bs = s.len();
    // wasted bits
    let all_zero = s.iter().all(|v| *v == 0);
    let tz = if all_zero { bps - 1 } else { s.iter().filter(|v| **v != 0).map(|v| v.trailing_zeros()).min().unwrap().min(bps - 1) };
    let wasted = if tz > 0 && ch.chance(2, 3) { 1 + ch.below(tz as u64) as u32 } else { 0 };
    if wasted > 0 {
        labels.push("wasted");
        if is_side {
            labels.push("wasted-on-side");
        }
    }
    let eff = bps - wasted;
    let sh: Vec<i64> = s.iter().map(|v| v >> wasted).collect();
    let constant = sh.iter().all(|v| *v == sh[0]);
    // kind: 0 constant, 1 verbatim, 2 fixed, 3 lpc
    let mut kind = match ch.below(10) {
        0 => 1,
        1..=4 => 2,
        _ => 3,
    };
    if constant && ch.chance(2, 3) {
        kind = 0;
    }
    if bs < 2 && kind == 3 {
        kind = 2;
    }
    loop {
        match kind {
            0 => {
                labels.push("constant");
                return SubIR { pad_bit: 0, type_code: 0, wasted, eff_bits: eff, body: SubBody::Constant(sh[0]) };
            }
            1 => {
                labels.push("verbatim");
                return SubIR { pad_bit: 0, type_code: 1, wasted, eff_bits: eff, body: SubBody::Verbatim(sh) };
            }
            2 => {
                let maxo = 4.min(bs - 1);
                let order = ch.below(maxo as u64 + 1) as usize;
                if let Some(r) = predict_residuals(&sh, FIXED_COEFS[order], 0) {
                    if residuals_ok(&r) {
                        if let Some(res) = gen_res(ch, &r, bs, order, labels) {
                            labels.push(match order {
                                0 => "fixed0",
                                1 => "fixed1",
                                2 => "fixed2",
                                3 => "fixed3",
                                _ => "fixed4",
                            });
                            return SubIR {
                                pad_bit: 0,
                                type_code: 8 + order as u8,
                                wasted,
                                eff_bits: eff,
                                body: SubBody::Fixed { warm: sh[..order].to_vec(), res },
                            };
                        }
                    }
                }
                labels.push("predictor-rechosen");
                kind = 1;
            }
            _ => {
                let maxo = 32.min(bs - 1);
                let order = if ch.chance(1, 4) { maxo } else { 1 + ch.below(maxo as u64) as usize };
                let prec: u32 = match ch.below(6) {
                    0 => 15,
                    1 => 1 + ch.below(3) as u32,
                    2 => 14,
                    _ => 1 + ch.below(15) as u32,
                };
                let shift: u32 = match ch.below(5) {
                    0 => 0,
                    1 => 15,
                    _ => ch.below(16) as u32,
                };
                let cmax = (1i64 << (prec - 1)) - 1;
                let cmin = -(1i64 << (prec - 1));
                let mode = ch.below(4);
                let mut coefs = Vec::with_capacity(order);
                for j in 0..order {
                    let c = match mode {
                        0 => cmin + ch.below((cmax - cmin + 1) as u64) as i64,
                        1 => {
                            // near a FIXED predictor scaled by 2^shift
                            let base = FIXED_COEFS[order.min(4)].get(j).copied().unwrap_or(0);
                            (base << shift.min(12)).clamp(cmin, cmax)
                        }
                        2 => {
                            if ch.chance(1, 2) {
                                cmax
                            } else {
                                cmin
                            }
                        }
                        _ => {
                            if j == 0 {
                                (1i64 << shift.min(13)).clamp(cmin, cmax)
                            } else {
                                0
                            }
                        }
                    };
                    coefs.push(c);
                }
                if let Some(r) = predict_residuals(&sh, &coefs, shift) {
                    if residuals_ok(&r) {
                        if let Some(res) = gen_res(ch, &r, bs, order, labels) {
                            labels.push("lpc");
                            if order > 12 {
                                labels.push("lpc-order>12");
                            }
                            if prec >= 14 {
                                labels.push("lpc-precision>=14");
                            }
                            if prec == 1 {
                                labels.push("lpc-precision=1");
                            }
                            return SubIR {
                                pad_bit: 0,
                                type_code: 31 + order as u8,
                                wasted,
                                eff_bits: eff,
                                body: SubBody::Lpc {
                                    warm: sh[..order].to_vec(),
                                    prec_code: (prec - 1) as u8,
                                    shift_raw: shift as u8,
                                    coef_bits: prec,
                                    coefs,
                                    res,
                                },
                            };
                        }
                    }
                }
                labels.push("predictor-rechosen");
                kind = 2;
            }
        }
    }
}

#[derive(Clone, Debug)]
pub struct StreamParams {
    pub channels: u8,
    pub bps: u8,
    pub rate: u32,
}

#[derive(Clone, Debug, Default)]
pub struct HeaderChoice {
    pub variable: bool,
    pub number: u64,
    /// 0 = minimal
    pub number_len: u8,
    /// allow codes that refer to STREAMINFO (false for subset/bare frames)
    pub allow_streaminfo_codes: bool,
}

/// Picks header codes for block size / rate / depth, honouring what is representable.
pub fn gen_frame(
    ch: &mut dyn Chooser,
    p: &StreamParams,
    chans: &[Vec<i32>],
    hc: &HeaderChoice,
) -> FrameIR {
    let bs = chans[0].len() as u32;
    let mut labels: Vec<&'static str> = vec![];
    // block size code
    let fixed_bs = BS_TABLE.iter().position(|x| *x == bs && bs != 0);
    let (bs_code, bs_extra) = match fixed_bs {
        Some(c) if !ch.chance(1, 3) => (c as u8, None),
        _ => {
            if fixed_bs.is_some() {
                labels.push("uncommon-code-for-common-blocksize");
            }
            if bs <= 256 && !ch.chance(1, 4) {
                labels.push("bs-8bit");
                (6u8, Some((8u32, (bs - 1) as u64)))
            } else {
                labels.push("bs-16bit");
                (7u8, Some((16u32, (bs - 1) as u64)))
            }
        }
    };
    // sample rate code
    let fixed_rate = RATE_TABLE.iter().position(|x| *x == p.rate && p.rate != 0);
    let mut rate_opts: Vec<(u8, Option<(u32, u64)>, &'static str)> = vec![];
    if hc.allow_streaminfo_codes {
        rate_opts.push((0, None, "rate-from-streaminfo"));
    }
    if let Some(c) = fixed_rate {
        rate_opts.push((c as u8, None, "rate-fixed-code"));
    }
    if p.rate % 1000 == 0 && p.rate / 1000 <= 255 {
        rate_opts.push((12, Some((8, (p.rate / 1000) as u64)), "rate-khz"));
    }
    if p.rate <= 65535 {
        rate_opts.push((13, Some((16, p.rate as u64)), "rate-hz"));
    }
    if p.rate % 10 == 0 && p.rate / 10 <= 65535 {
        rate_opts.push((14, Some((16, (p.rate / 10) as u64)), "rate-10hz"));
    }
    let (rate_code, rate_extra, rl) = rate_opts[ch.below(rate_opts.len() as u64) as usize];
    labels.push(rl);
    if fixed_rate.is_some() && rate_code >= 12 {
        labels.push("uncommon-code-for-common-rate");
    }
    // depth code
    let fixed_bps = match p.bps {
        8 => Some(1u8),
        12 => Some(2),
        16 => Some(4),
        20 => Some(5),
        24 => Some(6),
        32 => Some(7),
        _ => None,
    };
    let bps_code = match fixed_bps {
        Some(c) if !(hc.allow_streaminfo_codes && ch.chance(1, 3)) => c,
        Some(_) => {
            labels.push("depth-code-000-for-listed-depth");
            0
        }
        None => {
            labels.push("depth-from-streaminfo");
            0
        }
    };
    // channel layout
    let nch = chans.len();
    let mode = if nch == 2 { ch.below(4) } else { 0 };
    let bps = p.bps as u32;
    let to64 = |c: &Vec<i32>| c.iter().map(|v| *v as i64).collect::<Vec<i64>>();
    let mut subs = vec![];
    let chan_code: u8;
    match mode {
        1 => {
            chan_code = 8;
            labels.push("left-side");
            let l = to64(&chans[0]);
            let side: Vec<i64> = l.iter().zip(&chans[1]).map(|(a, b)| a - *b as i64).collect();
            subs.push(gen_subframe(ch, &l, bps, &mut labels, false));
            subs.push(gen_subframe(ch, &side, bps + 1, &mut labels, true));
        }
        2 => {
            chan_code = 9;
            labels.push("side-right");
            let r = to64(&chans[1]);
            let side: Vec<i64> = chans[0].iter().zip(&r).map(|(a, b)| *a as i64 - b).collect();
            subs.push(gen_subframe(ch, &side, bps + 1, &mut labels, true));
            subs.push(gen_subframe(ch, &r, bps, &mut labels, false));
        }
        3 => {
            chan_code = 10;
            labels.push("mid-side");
            let mid: Vec<i64> = chans[0].iter().zip(&chans[1]).map(|(a, b)| (*a as i64 + *b as i64) >> 1).collect();
            let side: Vec<i64> = chans[0].iter().zip(&chans[1]).map(|(a, b)| *a as i64 - *b as i64).collect();
            subs.push(gen_subframe(ch, &mid, bps, &mut labels, false));
            subs.push(gen_subframe(ch, &side, bps + 1, &mut labels, true));
        }
        _ => {
            chan_code = (nch - 1) as u8;
            for c in chans {
                subs.push(gen_subframe(ch, &to64(c), bps, &mut labels, false));
            }
        }
    }
    if mode != 0 && bps == 32 {
        labels.push("33-bit-side");
    }
    if hc.variable {
        labels.push("variable-blocking");
    }
    FrameIR {
        sync: 0x3FFE,
        reserved1: 0,
        variable: hc.variable,
        bs_code,
        rate_code,
        chan_code,
        bps_code,
        reserved2: 0,
        number: hc.number,
        number_len: hc.number_len,
        number_raw: None,
        bs_extra,
        rate_extra,
        crc8_xor: 0,
        subs,
        pad_fill: 0,
        crc16_xor: 0,
        bs,
        labels,
    }
}

// ---------------------------------------------------------------------------------------------
// whole streams

#[derive(Clone, Debug, PartialEq, Eq)]
pub enum Md5Mode {
    True,
    Zero,
    Wrong,
}

#[derive(Clone, Debug)]
pub struct GenStream {
    pub bytes: Vec<u8>,
    pub params: StreamParams,
    /// per channel
    pub pcm: Vec<Vec<i32>>,
    pub first_frame: usize,
    /// (offset, len, first sample, block size)
    pub frames: Vec<(usize, usize, u64, u32)>,
    pub irs: Vec<FrameIR>,
    pub labels: Vec<&'static str>,
    pub md5: Md5Mode,
    pub total_known: bool,
    pub min_bs: u16,
    pub max_bs: u16,
    pub streaminfo: Vec<u8>,
}

pub fn md5_of(pcm: &[Vec<i32>], bps: u8) -> [u8; 16] {
    crate::refdec::pcm_md5(pcm, bps)
}

pub fn streaminfo_bytes(min_bs: u16, max_bs: u16, min_fs: u32, max_fs: u32, p: &StreamParams, total: u64, md5: [u8; 16]) -> Vec<u8> {
    let mut w = BitW::default();
    w.put(16, min_bs as u64);
    w.put(16, max_bs as u64);
    w.put(24, min_fs as u64);
    w.put(24, max_fs as u64);
    w.put(20, p.rate as u64);
    w.put(3, (p.channels - 1) as u64);
    w.put(5, (p.bps - 1) as u64);
    w.put(36, total);
    let mut b = w.bytes;
    b.extend_from_slice(&md5);
    b
}

pub fn block_header(last: bool, ty: u8, len: usize) -> [u8; 4] {
    [(if last { 0x80 } else { 0 }) | ty, (len >> 16) as u8, (len >> 8) as u8, len as u8]
}

#[derive(Clone, Debug)]
pub struct StreamCfg {
    pub params: StreamParams,
    /// block sizes of the frames (the last may be short)
    pub blocks: Vec<u32>,
    pub variable: bool,
    pub md5: Md5Mode,
    pub total_known: bool,
    pub frame_sizes_known: bool,
    /// bit 0 padding, bit 1 seek table, bit 2 application, bit 3 vorbis comment
    pub extra_blocks: u8,
}

/// Builds the stream: metadata + frames for the given PCM (per channel, `sum(blocks)` samples).
pub fn build_stream(ch: &mut dyn Chooser, cfg: &StreamCfg, pcm: Vec<Vec<i32>>) -> GenStream {
    let p = cfg.params.clone();
    let mut frames_bytes: Vec<Vec<u8>> = vec![];
    let mut irs = vec![];
    let mut labels: Vec<&'static str> = vec![];
    let mut pos = 0usize;
    let mut sample_no = 0u64;
    for (i, bs) in cfg.blocks.iter().enumerate() {
        let bs = *bs as usize;
        let chans: Vec<Vec<i32>> = pcm.iter().map(|c| c[pos..pos + bs].to_vec()).collect();
        let hc = HeaderChoice {
            variable: cfg.variable,
            number: if cfg.variable { sample_no } else { i as u64 },
            number_len: 0,
            allow_streaminfo_codes: true,
        };
        let ir = gen_frame(ch, &p, &chans, &hc);
        for l in &ir.labels {
            if !labels.contains(l) {
                labels.push(l);
            }
        }
        frames_bytes.push(serialize_frame(&ir));
        irs.push(ir);
        pos += bs;
        sample_no += bs as u64;
    }
    let total = sample_no;
    let nonfinal = &cfg.blocks[..cfg.blocks.len().saturating_sub(1)];
    let max_bs = cfg.blocks.iter().copied().max().unwrap_or(16).max(if cfg.variable { 16 } else { 0 });
    let min_bs = if cfg.variable {
        nonfinal.iter().copied().min().unwrap_or(max_bs).min(max_bs)
    } else {
        // fixed-size streams: min == max == the common block size
        nonfinal.first().copied().unwrap_or(max_bs).max(*cfg.blocks.last().unwrap_or(&16))
    };
    let (min_bs, max_bs) = (min_bs.max(16) as u16, max_bs.max(16) as u16);
    let (min_fs, max_fs) = if cfg.frame_sizes_known {
        (
            frames_bytes.iter().map(|f| f.len()).min().unwrap_or(0) as u32,
            frames_bytes.iter().map(|f| f.len()).max().unwrap_or(0) as u32,
        )
    } else {
        (0, 0)
    };
    let md5 = match cfg.md5 {
        Md5Mode::True => md5_of(&pcm, p.bps),
        Md5Mode::Zero => [0; 16],
        Md5Mode::Wrong => {
            let mut m = md5_of(&pcm, p.bps);
            m[(ch.below(16)) as usize] ^= 1 << ch.below(8);
            if m == [0; 16] {
                m[0] = 1;
            }
            m
        }
    };
    let si = streaminfo_bytes(min_bs, max_bs, min_fs, max_fs, &p, if cfg.total_known { total } else { 0 }, md5);
    // optional blocks
    let mut blocks: Vec<(u8, Vec<u8>)> = vec![];
    if cfg.extra_blocks & 8 != 0 {
        let mut b = vec![];
        let vendor = b"fv framegen";
        b.extend_from_slice(&(vendor.len() as u32).to_le_bytes());
        b.extend_from_slice(vendor);
        b.extend_from_slice(&1u32.to_le_bytes());
        let f = b"TITLE=generated";
        b.extend_from_slice(&(f.len() as u32).to_le_bytes());
        b.extend_from_slice(f);
        blocks.push((4, b));
    }
    let mut offsets = vec![];
    let mut o = 0usize;
    for f in &frames_bytes {
        offsets.push(o);
        o += f.len();
    }
    if cfg.extra_blocks & 2 != 0 && !frames_bytes.is_empty() {
        // a subset of real frames, ascending, optionally not starting at frame 0, optional placeholders
        let mut b = vec![];
        let start = if ch.chance(1, 3) { ch.below(frames_bytes.len() as u64) as usize } else { 0 };
        let step = 1 + ch.below(3) as usize;
        let mut s = 0u64;
        let mut firsts = vec![];
        for bsz in &cfg.blocks {
            firsts.push(s);
            s += *bsz as u64;
        }
        let mut i = start;
        while i < frames_bytes.len() {
            b.extend_from_slice(&firsts[i].to_be_bytes());
            b.extend_from_slice(&(offsets[i] as u64).to_be_bytes());
            b.extend_from_slice(&(cfg.blocks[i] as u16).to_be_bytes());
            i += step;
        }
        for _ in 0..ch.below(3) {
            b.extend_from_slice(&u64::MAX.to_be_bytes());
            b.extend_from_slice(&0u64.to_be_bytes());
            b.extend_from_slice(&0u16.to_be_bytes());
            if !labels.contains(&"seektable-placeholders") {
                labels.push("seektable-placeholders");
            }
        }
        if start > 0 {
            labels.push("seektable-first-point-not-frame0");
        }
        labels.push("seektable");
        blocks.push((3, b));
    }
    if cfg.extra_blocks & 4 != 0 {
        let mut b = b"fvAP".to_vec();
        b.extend_from_slice(&[1, 2, 3]);
        blocks.push((2, b));
    }
    if cfg.extra_blocks & 1 != 0 {
        blocks.push((1, vec![0u8; ch.below(40) as usize]));
    }
    let mut bytes = b"fLaC".to_vec();
    bytes.extend_from_slice(&block_header(blocks.is_empty(), 0, 34));
    bytes.extend_from_slice(&si);
    let nb = blocks.len();
    for (i, (ty, b)) in blocks.iter().enumerate() {
        bytes.extend_from_slice(&block_header(i + 1 == nb, *ty, b.len()));
        bytes.extend_from_slice(b);
    }
    let first_frame = bytes.len();
    let mut frames = vec![];
    let mut s = 0u64;
    for (i, f) in frames_bytes.iter().enumerate() {
        frames.push((bytes.len(), f.len(), s, cfg.blocks[i]));
        bytes.extend_from_slice(f);
        s += cfg.blocks[i] as u64;
    }
    if cfg.variable {
        labels.push("variable-blocking");
    }
    match cfg.md5 {
        Md5Mode::True => labels.push("md5-true"),
        Md5Mode::Zero => labels.push("md5-absent"),
        Md5Mode::Wrong => labels.push("md5-wrong"),
    }
    if !cfg.total_known {
        labels.push("total-unknown");
    }
    GenStream {
        bytes,
        params: p,
        pcm,
        first_frame,
        frames,
        irs,
        labels,
        md5: cfg.md5.clone(),
        total_known: cfg.total_known,
        min_bs,
        max_bs,
        streaminfo: si,
    }
}

/// Target PCM for the generator: per channel signals chosen through the chooser.
pub fn gen_pcm(ch: &mut dyn Chooser, channels: u8, bps: u8, n: usize) -> Vec<Vec<i32>> {
    let lo = min_of(bps) as i64;
    let hi = max_of(bps) as i64;
    let full = bps as u32 - 1;
    let mut out: Vec<Vec<i32>> = vec![];
    for c in 0..channels as usize {
        let kind = ch.below(9);
        let seed = ch.bits();
        let mut r = Rng(seed);
        let mut v: Vec<i32> = Vec::with_capacity(n);
        if c == 1 && ch.chance(1, 2) {
            // correlated with channel 0
            let rel = ch.below(3);
            for x in out[0].iter() {
                let y = match rel {
                    0 => *x as i64,
                    1 => -(*x as i64),
                    _ => *x as i64 + r.signed(1),
                };
                v.push(y.clamp(lo, hi) as i32);
            }
        } else {
            let amp = ch.below(full as u64 + 1) as u32;
            let wasted = if ch.chance(1, 4) { ch.below(bps as u64) as u32 } else { 0 };
            let mut acc = [0i64; 3];
            for i in 0..n {
                let x: i64 = match kind {
                    0 => r.signed(amp),
                    1 => 0,
                    2 => {
                        if i % 2 == 0 {
                            lo
                        } else {
                            hi
                        }
                    }
                    3 => {
                        // ramp
                        acc[0] += 1 + (seed % 7) as i64;
                        acc[0] + r.signed(amp.min(2))
                    }
                    4 => {
                        acc[1] += (seed % 5) as i64 - 2;
                        acc[0] += acc[1];
                        if acc[0].abs() > hi / 2 {
                            acc = [0; 3];
                        }
                        acc[0]
                    }
                    5 => {
                        let ph = i as f64 * (0.01 + (seed % 1000) as f64 / 3000.0);
                        (ph.sin() * ((1u64 << amp) as f64 - 1.0)) as i64
                    }
                    6 => {
                        if r.below(17) == 0 {
                            if r.below(2) == 0 { lo } else { hi }
                        } else {
                            0
                        }
                    }
                    7 => hi - r.below(3) as i64,
                    _ => r.signed(amp.min(3)) + if r.below(29) == 0 { r.signed(full) } else { 0 },
                };
                let x = x.clamp(lo, hi);
                v.push(((x >> wasted) << wasted).clamp(lo, hi) as i32);
            }
        }
        out.push(v);
    }
    out
}

/// Chooses a whole stream configuration and builds it.
pub fn gen_stream(ch: &mut dyn Chooser, low_depth: bool, max_frames: usize, max_bs: u32) -> GenStream {
    let channels = match ch.below(6) {
        0 => 1,
        1 | 2 | 3 => 2,
        _ => 1 + ch.below(8) as u8,
    };
    let bps: u8 = if low_depth {
        1 + ch.below(3) as u8
    } else {
        match ch.below(8) {
            0 => 8,
            1 => 16,
            2 => 24,
            3 => 32,
            4 => 12,
            5 => 20,
            _ => 4 + ch.below(29) as u8,
        }
    };
    let rate: u32 = match ch.below(6) {
        0 => 44100,
        1 => [8000u32, 16000, 22050, 24000, 32000, 48000, 88200, 96000, 176400, 192000][ch.below(10) as usize],
        2 => (1 + ch.below(255) as u32) * 1000,
        3 => ch.below(65536) as u32,
        4 => ch.below(65536) as u32 * 10,
        _ => ch.below(1 << 20) as u32,
    };
    let variable = ch.chance(1, 3);
    let nframes = 1 + ch.below(max_frames as u64) as usize;
    let table: Vec<u32> = [192u32, 576, 256, 512, 1152, 1024, 2048, 4096, 2304, 4608].into_iter().filter(|b| *b <= max_bs).collect();
    let common_bs: u32 = match ch.below(5) {
        0 | 1 if !table.is_empty() => table[ch.below(table.len() as u64) as usize],
        1 => 16 + ch.below(17) as u32,
        _ => 16 + ch.below((max_bs.max(17) - 15) as u64) as u32,
    };
    let mut blocks = vec![];
    for i in 0..nframes {
        let last = i + 1 == nframes;
        let bs = if variable {
            if last && ch.chance(1, 2) {
                1 + ch.below(max_bs as u64) as u32
            } else {
                16 + ch.below((max_bs.max(17) - 15) as u64) as u32
            }
        } else if last && ch.chance(1, 2) {
            1 + ch.below(common_bs as u64) as u32
        } else {
            common_bs
        };
        blocks.push(bs);
    }
    let total: usize = blocks.iter().map(|b| *b as usize).sum();
    let pcm = gen_pcm(ch, channels, bps, total);
    let md5 = match ch.below(4) {
        0 => Md5Mode::Zero,
        1 => Md5Mode::Wrong,
        _ => Md5Mode::True,
    };
    let cfg = StreamCfg {
        params: StreamParams { channels, bps, rate },
        blocks,
        variable,
        md5,
        total_known: !ch.chance(1, 4),
        frame_sizes_known: ch.chance(1, 2),
        extra_blocks: if ch.chance(1, 2) { 0 } else { ch.below(16) as u8 },
    };
    build_stream(ch, &cfg, pcm)
}
