//! Thin drivers around the crate's writer and reader front-ends.

use crate::opts::EncOpts;
use crate::pcm::{Pcm, bytes_to_samples};
use flac_codec::byteorder::{BigEndian, LittleEndian};
use flac_codec::decode::{FlacByteReader, FlacChannelReader, FlacSampleReader, Metadata};
use flac_codec::encode::{FlacByteWriter, FlacChannelWriter, FlacSampleWriter};
use serde::{Deserialize, Serialize};
use std::io::{Read, Seek, Write};

#[derive(Serialize, Deserialize, Clone, Copy, Debug, Hash, PartialEq, Eq)]
pub enum Front {
    BytesLE,
    BytesBE,
    Samples,
    Channels,
}

pub const FRONTS: [Front; 4] = [Front::BytesLE, Front::BytesBE, Front::Samples, Front::Channels];

#[derive(Debug, Clone, PartialEq, Eq)]
pub enum EncErr {
    Options(String),
    New(String),
    Write(String),
    Finalize(String),
}

/// The crate's writers finalize on drop. When a write call fails or panics the writer is
/// leaked instead of dropped, so that the implicit finalize cannot run (and, after a panic,
/// cannot raise a second panic while the first is still unwinding, which would abort).
pub struct NoDrop<T>(pub std::mem::ManuallyDrop<T>);
impl<T> NoDrop<T> {
    pub fn new(t: T) -> Self {
        NoDrop(std::mem::ManuallyDrop::new(t))
    }
    pub fn into_inner(self) -> T {
        std::mem::ManuallyDrop::into_inner(self.0)
    }
}
impl<T> std::ops::Deref for NoDrop<T> {
    type Target = T;
    fn deref(&self) -> &T {
        &self.0
    }
}
impl<T> std::ops::DerefMut for NoDrop<T> {
    fn deref_mut(&mut self) -> &mut T {
        &mut self.0
    }
}

impl EncErr {
    pub fn stage(&self) -> &'static str {
        match self {
            EncErr::Options(_) => "options",
            EncErr::New(_) => "new",
            EncErr::Write(_) => "write",
            EncErr::Finalize(_) => "finalize",
        }
    }
    pub fn text(&self) -> &str {
        match self {
            EncErr::Options(s) | EncErr::New(s) | EncErr::Write(s) | EncErr::Finalize(s) => s,
        }
    }
}

/// Total to declare, in the unit of the front-end.
pub fn declared_total(pcm: &Pcm, front: Front) -> u64 {
    let frames = pcm.frames() as u64;
    match front {
        Front::BytesLE | Front::BytesBE => frames * pcm.channels as u64 * pcm.bytes_per_sample() as u64,
        Front::Samples => frames * pcm.channels as u64,
        Front::Channels => frames,
    }
}

/// Encodes `pcm` through the chosen front-end into `w`. `chunks` are call sizes in the
/// front-end's unit (bytes / samples / PCM frames), cycled; empty = a single call.
/// `extra` = trailing partial data appended after the whole PCM frames (bytes or samples),
/// only meaningful for byte/sample front-ends with an undeclared total.
pub fn encode_into<W: Write + Seek>(
    w: W,
    pcm: &Pcm,
    opts: &EncOpts,
    front: Front,
    chunks: &[usize],
    total: Option<u64>,
    extra: &[i32],
) -> Result<(), EncErr> {
    encode_ext(w, pcm, opts, front, chunks, total, extra, 0)
}

/// Like `encode_into`; `partial_bytes` appends that many bytes of a further, incomplete sample
/// (byte front-ends only).
#[allow(clippy::too_many_arguments)]
pub fn encode_ext<W: Write + Seek>(
    w: W,
    pcm: &Pcm,
    opts: &EncOpts,
    front: Front,
    chunks: &[usize],
    total: Option<u64>,
    extra: &[i32],
    partial_bytes: usize,
) -> Result<(), EncErr> {
    encode_full(w, pcm, opts, front, chunks, total, extra, partial_bytes, true)
}

/// `finalize == false` models a crash before finalize: all data is written, then the writer is
/// leaked (neither finalized nor dropped).
#[allow(clippy::too_many_arguments)]
pub fn encode_full<W: Write + Seek>(
    w: W,
    pcm: &Pcm,
    opts: &EncOpts,
    front: Front,
    chunks: &[usize],
    total: Option<u64>,
    extra: &[i32],
    partial_bytes: usize,
    finalize: bool,
) -> Result<(), EncErr> {
    let o = opts.to_options().map_err(EncErr::Options)?;
    let bps = pcm.bps as u32;
    let mut ci = 0usize;
    let mut zeros = 0usize;
    // call sizes are taken from `chunks` cyclically; after 8 consecutive empty calls the rest is
    // written at once (an all-zero chunk list would otherwise never make progress)
    let mut next_chunk = |rest: usize| -> usize {
        if chunks.is_empty() {
            rest
        } else {
            let c = chunks[ci % chunks.len()];
            ci += 1;
            if c == 0 {
                zeros += 1;
                if zeros > 8 {
                    return rest;
                }
            } else {
                zeros = 0;
            }
            c.min(rest)
        }
    };
    match front {
        Front::BytesLE | Front::BytesBE => {
            let be = front == Front::BytesBE;
            let mut data = pcm.to_bytes(be);
            let bytes = pcm.bytes_per_sample();
            // trailing partial PCM frame: whole extra samples, possibly plus a partial sample
            let xb = crate::pcm::samples_to_bytes(extra, bytes, be);
            data.extend_from_slice(&xb);
            data.extend(std::iter::repeat_n(0xABu8, partial_bytes.min(bytes.saturating_sub(1))));
            macro_rules! run {
                ($wr:expr) => {{
                    let mut wr = NoDrop::new($wr.map_err(|e| EncErr::New(e.to_string()))?);
                    let mut off = 0;
                    while off < data.len() {
                        let n = next_chunk(data.len() - off);
                        if n == 0 {
                            wr.write_all(&[]).map_err(|e| EncErr::Write(e.to_string()))?;
                            continue;
                        }
                        wr.write_all(&data[off..off + n]).map_err(|e| EncErr::Write(e.to_string()))?;
                        off += n;
                        // io::Write users also flush between writes; it must not change the stream
                        if n % 3 == 1 && off < data.len() {
                            wr.flush().map_err(|e| EncErr::Write(e.to_string()))?;
                        }
                    }
                    if !finalize {
                        unfinalized_reached();
                        drop(wr.into_inner());
                        return Ok(());
                    }
                    wr.into_inner().finalize().map_err(|e| EncErr::Finalize(e.to_string()))
                }};
            }
            if be {
                run!(FlacByteWriter::endian(w, BigEndian, o, pcm.rate, bps, pcm.channels, total))
            } else {
                run!(FlacByteWriter::endian(w, LittleEndian, o, pcm.rate, bps, pcm.channels, total))
            }
        }
        Front::Samples => {
            let mut data = pcm.interleaved();
            data.extend_from_slice(extra);
            let mut wr = NoDrop::new(
                FlacSampleWriter::new(w, o, pcm.rate, bps, pcm.channels, total).map_err(|e| EncErr::New(e.to_string()))?,
            );
            let mut off = 0;
            while off < data.len() {
                let n = next_chunk(data.len() - off);
                wr.write(&data[off..off + n]).map_err(|e| EncErr::Write(e.to_string()))?;
                off += n;
            }
            if !finalize {
                unfinalized_reached();
                drop(wr.into_inner());
                return Ok(());
            }
            wr.into_inner().finalize().map_err(|e| EncErr::Finalize(e.to_string()))
        }
        Front::Channels => {
            let mut wr = NoDrop::new(
                FlacChannelWriter::new(w, o, pcm.rate, bps, pcm.channels, total).map_err(|e| EncErr::New(e.to_string()))?,
            );
            let frames = pcm.frames();
            let mut off = 0;
            while off < frames {
                let n = next_chunk(frames - off);
                let sl: Vec<&[i32]> = pcm.data.iter().map(|c| &c[off..off + n]).collect();
                wr.write(&sl).map_err(|e| EncErr::Write(e.to_string()))?;
                off += n;
            }
            if !finalize {
                unfinalized_reached();
                drop(wr.into_inner());
                return Ok(());
            }
            wr.into_inner().finalize().map_err(|e| EncErr::Finalize(e.to_string()))
        }
    }
}

/// Convenience: encode into a fresh in-memory file, total declared according to opts.
pub fn encode_vec(pcm: &Pcm, opts: &EncOpts, front: Front, chunks: &[usize]) -> Result<Vec<u8>, EncErr> {
    let mut cur = std::io::Cursor::new(Vec::new());
    let total = if opts.declare_total { Some(declared_total(pcm, front)) } else { None };
    encode_into(&mut cur, pcm, opts, front, chunks, total, &[])?;
    Ok(cur.into_inner())
}

// ---------------------------------------------------------------------------------------------

#[derive(Serialize, Deserialize, Clone, Copy, Debug, Hash, PartialEq, Eq)]
pub enum ReaderKind {
    ByteLE,
    ByteBE,
    Sample,
    SampleIter,
    SampleToEnd,
    Channel,
}

pub const READERS: [ReaderKind; 6] = [
    ReaderKind::ByteLE,
    ReaderKind::ByteBE,
    ReaderKind::Sample,
    ReaderKind::SampleIter,
    ReaderKind::SampleToEnd,
    ReaderKind::Channel,
];

#[derive(Debug, Clone)]
pub struct DecOut {
    pub channels: u8,
    pub bps: u32,
    pub rate: u32,
    pub total: Option<u64>,
    pub md5: Option<[u8; 16]>,
    /// interleaved samples delivered before the first error / end
    pub samples: Vec<i32>,
    /// error that ended decoding, if any
    pub err: Option<String>,
}

/// Opens `r` with the chosen reader and reads to the end or the first error.
/// `Err` = the reader could not be opened.
pub fn decode_with<R: Read>(r: R, kind: ReaderKind, read_size: usize) -> Result<DecOut, String> {
    let rs = read_size.max(1);
    match kind {
        ReaderKind::ByteLE | ReaderKind::ByteBE => {
            let be = kind == ReaderKind::ByteBE;
            macro_rules! run {
                ($rd:expr) => {{
                    let mut rd = $rd.map_err(|e| e.to_string())?;
                    let mut out = meta_of(&rd);
                    let bytes = (out.bps as usize).div_ceil(8);
                    let mut raw = vec![];
                    let mut buf = vec![0u8; rs];
                    loop {
                        match rd.read(&mut buf) {
                            Ok(0) => break,
                            Ok(n) => raw.extend_from_slice(&buf[..n]),
                            Err(e) if e.kind() == std::io::ErrorKind::Interrupted => continue,
                            Err(e) => {
                                out.err = Some(e.to_string());
                                break;
                            }
                        }
                    }
                    if raw.len() % bytes != 0 {
                        out.err = Some(format!(
                            "byte reader delivered {} bytes, not a multiple of {}{}",
                            raw.len(),
                            bytes,
                            out.err.as_deref().map(|e| format!(" (then: {e})")).unwrap_or_default()
                        ));
                    }
                    out.samples = bytes_to_samples(&raw, bytes, be);
                    Ok(out)
                }};
            }
            if be { run!(FlacByteReader::endian(r, BigEndian)) } else { run!(FlacByteReader::endian(r, LittleEndian)) }
        }
        ReaderKind::Sample => {
            let mut rd = FlacSampleReader::new(r).map_err(|e| e.to_string())?;
            let mut out = meta_of(&rd);
            let mut buf = vec![0i32; rs];
            loop {
                match rd.read(&mut buf) {
                    Ok(0) => break,
                    Ok(n) => out.samples.extend_from_slice(&buf[..n]),
                    Err(e) => {
                        out.err = Some(e.to_string());
                        break;
                    }
                }
            }
            Ok(out)
        }
        ReaderKind::SampleToEnd => {
            let mut rd = FlacSampleReader::new(r).map_err(|e| e.to_string())?;
            let mut out = meta_of(&rd);
            let mut v = vec![];
            if let Err(e) = rd.read_to_end(&mut v) {
                out.err = Some(e.to_string());
            }
            out.samples = v;
            Ok(out)
        }
        ReaderKind::SampleIter => {
            let rd = FlacSampleReader::new(r).map_err(|e| e.to_string())?;
            let mut out = meta_of(&rd);
            for s in rd {
                match s {
                    Ok(v) => out.samples.push(v),
                    Err(e) => {
                        out.err = Some(e.to_string());
                        break;
                    }
                }
            }
            Ok(out)
        }
        ReaderKind::Channel => {
            let mut rd = FlacChannelReader::new(r).map_err(|e| e.to_string())?;
            let mut out = meta_of(&rd);
            loop {
                let n = match rd.fill_buf() {
                    Ok(chs) => {
                        let n = chs.first().map(|c| c.len()).unwrap_or(0);
                        if chs.iter().any(|c| c.len() != n) {
                            out.err = Some("channel reader returned ragged channels".into());
                            break;
                        }
                        for i in 0..n {
                            for c in &chs {
                                out.samples.push(c[i]);
                            }
                        }
                        n
                    }
                    Err(e) => {
                        out.err = Some(e.to_string());
                        break;
                    }
                };
                if n == 0 {
                    break;
                }
                rd.consume(n);
            }
            Ok(out)
        }
    }
}

fn meta_of<M: Metadata>(m: &M) -> DecOut {
    DecOut {
        channels: m.channel_count(),
        bps: m.bits_per_sample(),
        rate: m.sample_rate(),
        total: m.total_samples(),
        md5: m.md5().copied(),
        samples: vec![],
        err: None,
    }
}

/// Like `decode_with` but discards the samples (only counts them), so that the memory measured
/// around the call is the decoder's own and not the accumulated output.
thread_local! {
    static UNFINALIZED_HOOK: std::cell::RefCell<Option<Box<dyn FnMut()>>> = const { std::cell::RefCell::new(None) };
}

/// Runs `f` with `hook` installed: `encode_full(.., finalize = false)` calls the hook once every
/// write call has returned and before the writer is dropped. (The crate's writers finalize when
/// dropped; leaking them instead, as is done after a failed write, costs their buffers on every
/// case. So whoever needs the pre-finalize state of the sink takes it in the hook.)
pub fn with_unfinalized_hook<T>(hook: Box<dyn FnMut()>, f: impl FnOnce() -> T) -> T {
    UNFINALIZED_HOOK.with(|h| *h.borrow_mut() = Some(hook));
    let r = f();
    UNFINALIZED_HOOK.with(|h| *h.borrow_mut() = None);
    r
}

fn unfinalized_reached() {
    let hook = UNFINALIZED_HOOK.with(|h| h.borrow_mut().take());
    if let Some(mut hk) = hook {
        hk();
    }
}

/// how many more times `drain_with` calls a reader after its first error (results ignored)
const AFTER_ERROR_CALLS: usize = 2;

pub fn drain_with<R: Read>(r: R, kind: ReaderKind, read_size: usize, input_len: usize) -> Result<(u64, Option<String>), String> {
    let error_cap = input_len + 16;
    let rs = read_size.max(1);
    let mut n = 0u64;
    let mut err = None;
    match kind {
        ReaderKind::ByteLE | ReaderKind::ByteBE => {
            macro_rules! run {
                ($rd:expr) => {{
                    let mut rd = $rd.map_err(|e| e.to_string())?;
                    let mut buf = vec![0u8; rs];
                    loop {
                        match rd.read(&mut buf) {
                            Ok(0) => break,
                            Ok(m) => n += m as u64,
                            Err(e) if e.kind() == std::io::ErrorKind::Interrupted => continue,
                            Err(e) => {
                                err = Some(e.to_string());
                                // a caller may try again after an error: data or another error, never a panic
                                for _ in 0..AFTER_ERROR_CALLS {
                                    let _ = rd.read(&mut buf);
                                }
                                break;
                            }
                        }
                    }
                }};
            }
            if kind == ReaderKind::ByteBE { run!(FlacByteReader::endian(r, BigEndian)) } else { run!(FlacByteReader::endian(r, LittleEndian)) }
        }
        ReaderKind::Sample | ReaderKind::SampleToEnd => {
            let mut rd = FlacSampleReader::new(r).map_err(|e| e.to_string())?;
            loop {
                match rd.fill_buf() {
                    Ok([]) => break,
                    Ok(b) => {
                        let m = b.len();
                        n += m as u64;
                        rd.consume(m);
                    }
                    Err(e) => {
                        err = Some(e.to_string());
                        for _ in 0..AFTER_ERROR_CALLS {
                            if let Ok(b) = rd.fill_buf() {
                                let m = b.len();
                                rd.consume(m);
                            }
                        }
                        break;
                    }
                }
            }
        }
        ReaderKind::SampleIter => {
            let mut rd = FlacSampleReader::new(r).map_err(|e| e.to_string())?.into_iter();
            while let Some(s) = rd.next() {
                match s {
                    Ok(_) => n += 1,
                    Err(e) => {
                        err = Some(e.to_string());
                        // exhausting the iterator must terminate even when errors are ignored:
                        // every failed frame read consumes input, so errors are bounded by its size
                        let mut errors = 0usize;
                        let mut items = 0u64;
                        while let Some(x) = rd.next() {
                            items += 1;
                            if x.is_err() {
                                errors += 1;
                                if errors > error_cap {
                                    panic!("FV_HANG: sample iterator yields more errors than the input has bytes");
                                }
                            }
                            if items > (1 << 26) {
                                break;
                            }
                        }
                        break;
                    }
                }
            }
        }
        ReaderKind::Channel => {
            let mut rd = FlacChannelReader::new(r).map_err(|e| e.to_string())?;
            loop {
                let m = match rd.fill_buf() {
                    Ok(chs) => chs.first().map(|c| c.len()).unwrap_or(0),
                    Err(e) => {
                        err = Some(e.to_string());
                        for _ in 0..AFTER_ERROR_CALLS {
                            if let Ok(chs) = rd.fill_buf() {
                                let m = chs.first().map(|c| c.len()).unwrap_or(0);
                                rd.consume(m);
                            }
                        }
                        break;
                    }
                };
                if m == 0 {
                    break;
                }
                n += m as u64;
                rd.consume(m);
            }
        }
    }
    Ok((n, err))
}
