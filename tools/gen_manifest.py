#!/usr/bin/env python3
"""Regenerates /verif/MANIFEST.json from the table below (kept in one place so it stays valid)."""
import json
import os

VERIF = os.path.dirname(os.path.dirname(os.path.abspath(__file__)))

# id -> (technique, level category, level text, level note, design ref)
CHECKS = {
    "C01": (
        "exhaustive small-scope enumeration + proptest round-trip (encode, decode with all six readers)",
        "exploration",
        "Round-trip oracle over generated PCM x options x writer front-end x chunking: all vectors over {-2..2} up to length 8 "
        "(10 thorough) and {-1,0,1} to 12 in four configurations, the full grid lengths 1..64 x 40 signal shapes x block {16,32} x "
        "LPC {none,4,8,32} x partition order {0,2,6,15}, plus tens of thousands of random cases incl. blocks up to 65535, in the "
        "optimised and the overflow-checked profile. Held-on-everything-explored, not a proof.",
        "Trusts the harness PCM expansion and comparison code; the crate's own decoder is the inverse (C02 covers conformance).",
        "DESIGN.md section 4 C01",
    ),
    "C02": (
        "proptest + exhaustive grid, oracle = independent strict RFC 9639 validator/decoder (no crate decoder involved)",
        "exploration",
        "Every file / raw frame stream produced over the C01 case space (plus FlacStreamWriter sequences with per-frame "
        "parameters) is judged only by harness/src/refdec.rs in strict mode: header codes, minimal coded numbers, CRC-8/16, zero "
        "padding, partition/residual-range/predictor/wasted-bit rules, consecutive numbering, block-size discipline, STREAMINFO "
        "fields, MD5, and bit-exact reconstruction with exact (non-wrapping) arithmetic. Detects encoder/decoder pairs that agree "
        "with each other but not with the format.",
        "Trusts refdec.rs as a reading of RFC 9639; it is cross-checked against the independent generator framegen.rs on every "
        "C03 case and decodes the repository fixtures to their stored MD5.",
        "DESIGN.md section 4 C02",
    ),
    "C03": (
        "proptest over a grammar-complete independent stream generator; oracle = target PCM (valid by construction)",
        "exploration",
        "Streams are produced by harness/src/framegen.rs choosing every syntactic alternative independently (variable blocking, "
        "all block-size/rate/depth codings, all channel layouts incl. 33-bit side, FIXED 0-4, LPC 1-32 with precision 1-15, "
        "wasted bits, both residual methods at any depth, every legal partition order, any Rice parameter, escapes incl. width 0); "
        "the crate must return the target PCM through all six readers, report STREAMINFO values, and give the right verify verdict "
        "for true/absent/wrong MD5; bare frames sweep 1..7-byte coded numbers through FlacStreamReader and Frame::read_subset. "
        "Both build profiles.",
        "Validity of generated streams is not assumed but checked per case by the independent decoder (disagreement = exit 2).",
        "DESIGN.md section 4 C03",
    ),
    "C04": (
        "proptest grammar mutants with recomputed checksums + checksum-repaired byte mutations + exhaustive flip/truncation sweep + raw bytes; "
        "totality oracle (no unwind, bounded post-EOF polls, heap cap); libFuzzer targets in the thorough tier",
        "exploration",
        "43 classes of malformed-but-checksum-valid frames built from the generator's frame IR (1-3 per stream), byte-level mutants "
        "of valid files with CRC-8/CRC-16 repaired, every single-bit flip and truncation of a corpus of small files, and raw bytes, "
        "each through 8 file-level and 5 frame-level entry points (all readers, verify_reader, FrameIterator + Subframe::decode, "
        "generate_seektable, read_blocks, FlacStreamReader, Frame/FrameHeader::read*), in both build profiles; every reader is called twice more after its first error. Oracle: Ok/Err only, "
        "bounded reads after end of data, peak heap <= 64 MiB + 64 x input length.",
        "Heap accounting is per thread via the harness allocator; a pure compute loop would only trip the watchdog (exit 2).",
        "DESIGN.md section 4 C04",
    ),
    "C05": (
        "exhaustive fault enumeration (every single-bit flip and truncation per corpus file) + proptest over must-reject mutant classes; "
        "oracle = independent strict/lenient decoder on the altered bytes",
        "fault_enumeration",
        "For each file of a generated corpus (crate-encoded and independently generated) every single-bit flip in the frame region "
        "and every truncation length is applied: decoding must end in an error unless the independent strict validator accepts the "
        "altered bytes, delivered samples must be whole frames equal to what the independent decoder reads from the same bytes, and "
        "MD5Match requires matching PCM; all 128 one-bit alterations of stored digests must give MD5Mismatch; every must-reject "
        "class (reserved codes, STREAMINFO disagreement, wasted bits >= depth, order > block, illegal partition order, wrong CRCs, "
        "block past the declared total, short non-final block) must be refused.",
        "Per-file exhaustiveness is real; the corpus itself is a sample (seeded). Checksum coincidences are decided by the independent decoder.",
        "DESIGN.md section 4 C05",
    ),
    "C06": (
        "model-based stateful testing: proptest operation histories against an array-with-cursor reference model",
        "exploration",
        "Histories of 1-40 operations {read, fill_buf, consume, seek Start/Current/End, seek(sample), tell} over the four seekable "
        "front-ends on non-periodic files with every seek-table shape (none, every frame, every n frames, every n seconds, "
        "placeholders, first point not frame 0), 1-8 channels, byte widths 1-4; after each step the returned data must equal the "
        "decoded PCM at the model cursor, in-range seeks succeed with the right return value, out-of-range seeks fail.",
        "After a failed seek the model deliberately stops predicting until the next successful absolute seek.",
        "DESIGN.md section 4 C06",
    ),
    "C07": (
        "model-based histories without seeks over segmented sources + exhaustive source split points for small files",
        "exploration",
        "Histories over {read(n), fill_buf, consume(k<=avail), then optionally into_iter() for the rest} on the four buffered front-ends over sources that fragment reads "
        "(1-byte, random chunks), continued to the end and polled 0-3 more times: exactly-once in-order delivery, idempotent end of "
        "stream, byte/sample/channel views consistent; plus every 2-way split point and 1-byte reads of small files through all six "
        "front-ends (exhaustive per file).",
        "The reference is the harness's own serialisation of the PCM the file was built from.",
        "DESIGN.md section 4 C07",
    ),
    "C08": (
        "metamorphic proptest (call-pattern invariance) + exhaustive 2/3-way split enumeration for small inputs",
        "exploration",
        "For fixed PCM and options every (front-end, sequence of write-call sizes) - empty writes, 1-unit writes, calls ending inside "
        "a sample or PCM frame, trailing partial PCM frame or partial sample - must yield a file byte-identical to the one-call "
        "encoding, twice in a row; all (first, second) call-size pairs up to 96 units are enumerated for 6 small inputs x 4 "
        "front-ends; inputs shorter than one PCM frame must not panic. Both build profiles.",
        "The canonical file is produced by the crate itself (one call through the sample front-end); C01/C02 cover its correctness.",
        "DESIGN.md section 4 C08",
    ),
    "C09": (
        "proptest over options x seek-table policy x padding fit x start offset, oracle = independent parser over a recording writer",
        "exploration",
        "Files are written through a recording writer (optionally after a junk prefix, optionally accepting only n bytes per write call); the independent strict validator then "
        "confirms STREAMINFO total/channels/rate/depth/block size/frame-size extrema/MD5, every defined seek point (sample, offset, "
        "length of a real frame; ascending; placeholders last), that every write during finalize lies in the metadata region or appends "
        "at the end, the frames already out are unchanged and unmoved, and that generate_seektable on the finished file gives the same "
        "defined points in the same number. Padding sizes sweep -3..+2 bytes around the exact seek-table fit; streams of 66 000-200 000 "
        "samples with blocks up to 16384; one run writes 932 068 frames with one point per frame. Both build profiles.",
        "Presence of a seek table is not required (the statement does not), only truthfulness of what is written.",
        "DESIGN.md section 4 C09",
    ),
    "C10": (
        "stateful proptest: edit histories applied through update_file/update, oracle = independent frame map + exact byte accounting",
        "exploration",
        "Identical audio frames behind independently assembled metadata (0-3 padding blocks incl. sizes 0, 1, 17 and near 2^24, any "
        "block order); 1-5 successive edits whose size deltas sweep -9..+9 bytes around 0, the first padding's size and that size + 4; "
        "in-place results must keep length, first-frame offset and frame bytes and read back as the edited list except the first "
        "padding's size; rebuilt results must be edited blocks + identical frames with the original untouched; refused edits "
        "(second PNG icon, > 2^24-1 byte block, failing callback) must leave the original byte-identical; every result must decode to "
        "the same PCM. A grid (first padding 0-5 bytes below 2^24-1) x (0-10 bytes freed) crosses the 24-bit limit from both sides.",
        "Block lists are read back with the crate's own reader (its fidelity is C11); first-frame offsets and frame bytes come from the independent parser.",
        "DESIGN.md section 4 C10",
    ),
    "C20": (
        "proptest over a cue-sheet grammar generator, oracle = the abstract layout the text was rendered from",
        "exploration",
        "Well-formed cue texts (1-99 tracks, optional pre-gap, up to 99 indices, minutes far above 99, optional quoted/unquoted "
        "CATALOG and ISRC with or without dashes, FLAGS PRE or another single flag, noise lines, arbitrary surrounding blanks/tabs, "
        "LF/CRLF) are imported for a stream of whole CD sectors; track numbers, index numbers, absolute positions, pre-emphasis, "
        "ISRC, catalog, lead-out and track ranges must equal the generator's model, and display() followed by parse() must "
        "reproduce the track/index layout.",
        "Multi-blank separators and multi-flag FLAGS lines are outside the generated domain (no cited specification settles them).",
        "DESIGN.md section 4 C20",
    ),
    "C11": (
        "proptest value-level and byte-level round trips with a differential against an independent RFC 9639 metadata codec",
        "exploration",
        "Values of all seven block types built through the public API (STREAMINFO at every field limit, arbitrary UTF-8 comments, "
        "pictures, application data, seek tables with placeholders, CD-DA and non-CD-DA cue sheets up to their track/index limits "
        "via text import) are written: the crate's reader must return equal values, harness/src/refmeta.rs must find exactly the RFC "
        "layout of those values (so a field-width change made on both sides is caught), bytes()/total_size() must equal the bytes "
        "emitted; independently serialised legal blocks the reader accepts must be writable and re-read equal; lists breaking the "
        "single-instance / ordering / 24-bit size rules must be refused with an error; padding blocks at and just below 2^24-1 bytes are "
        "round-tripped from the byte side. Both build profiles.",
        "md5 Some([0;16]) is outside the value domain; total_size() may answer None when payload + header exceeds the 24-bit size type.",
        "DESIGN.md section 4 C11",
    ),
    "C12": (
        "proptest + exhaustive header-byte sweeps over hostile metadata, cue texts and image headers; totality oracle",
        "exploration",
        "Independently serialised metadata sections with hostile sizes, counts, 32/64-bit fields, type bytes, truncation and missing "
        "last flags, raw bytes, grammar-generated cue texts with line-level mutations for several stream lengths, and PNG/JPEG/GIF "
        "headers with every byte position swept over 0..=255, every 4-/2-byte window set to 14/9 extreme values, generated PNG chunk / JPEG "
        "segment / GIF header sequences with hostile lengths, through every metadata entry point and - for whatever parses - every "
        "accessor (duration, decoded_len, channel_mask, cue-sheet tracks/ranges/byte ranges/display/catalog) and re-serialisation. "
        "Oracle: no unwind, bounded reads after end of data, heap <= 64 MiB + 64 x input; both build profiles.",
        "Same accounting limits as C04.",
        "DESIGN.md section 4 C12",
    ),
    "C14": (
        "crash-point enumeration: every write-call boundary / every byte length of the pre-finalize output (exhaustive per case) over proptest-generated encodes",
        "fault_enumeration",
        "Each generated encode (declared/undeclared total x seek-table policy x padding x extra metadata x front-end x chunking) runs "
        "through a recording writer and stops before finalize (writer leaked, never dropped). For every prefix at write-call "
        "granularity, and at every byte for outputs up to 2 KiB, the decoder must deliver exactly the PCM of the frames that the "
        "independent frame map places wholly inside the prefix, then end-of-data or an error (an encoder that rewrites earlier bytes "
        "before finalize would be judged on the snapshot after each write instead). Both build profiles.",
        "Crash = loss of everything after a prefix of the appended bytes; reordering of writes by the OS is outside the model.",
        "DESIGN.md section 4 C14",
    ),
    "C15": (
        "boundary-value grid + proptest combinations over constructor arguments and option values, with a legality oracle derived from the documentation",
        "exploration",
        "Sample rate, depth, channels, declared total (each writer's unit), block size, LPC order, partition order, padding, windows "
        "and seek policies are swept over boundary (0, 1, max, max+1, type max) and interior values for the three writers; the test "
        "signal is then written in chunks totalling exactly / fewer / more PCM frames than declared. Setters and constructors must "
        "return Ok exactly for documented values and never unwind; legal combinations must produce a file that round-trips with the "
        "right STREAMINFO; over-filling must be reported, under-filling must fail at finalize, undeclared totals must be recorded. "
        "FlacStreamWriter::write arguments likewise. Both build profiles.",
        "Some(0) as a declared total has no expected outcome; constructions that only enumerate > 10^7 placeholder seek points are skipped (counted).",
        "DESIGN.md section 4 C15",
    ),
    "C19": (
        "proptest over predictor-adversarial signals + exhaustive constant-block grid; per-frame size bound from the independent frame map",
        "exploration",
        "Full-scale noise, alternating extremes, Rice-hostile blocks, steps, impulses at the rails and the general C01 generator, "
        "crossed with all option sets and block sizes to 65535: every frame must satisfy bytes <= 64 + ceil(n x channels x bps [+ n "
        "for a stereo pair] / 8); a grid of constant blocks (lengths 16..65535 x 1-8 channels x constant classes x depths x LPC x "
        "partition order) must cost <= 64 + 96 x channels bytes per frame.",
        "The 64-byte allowance is the harness's reading of 'a fixed header-and-footer allowance'; worst observed ratio is reported in the evidence.",
        "DESIGN.md section 4 C19",
    ),
    "C16": (
        "proptest over frame sequences x garbage classes x buffer segmentations; oracle = independent standalone frame decoder + order-preserving matching",
        "exploration",
        "Frame sequences with per-frame rate/channels/depth/length are written by FlacStreamWriter, interleaved with garbage "
        "(sync-free, FF-rich, FF F8/F9 look-alikes, truncated real frames, FF-terminated) and read through a BufRead whose buffers "
        "end inside every sync code / after every byte / at random points, optionally with one Interrupted error: every frame must "
        "decode standalone by the independent decoder without STREAMINFO-referencing codes; clean streams return every frame "
        "exactly and no errors; with garbage every returned frame is a written one in order (checksum coincidences decided by the "
        "independent decoder); sync-free garbage costs no frame. Both build profiles.",
        "A coincidence needs CRC-8 and CRC-16 to match by chance (~2^-24 per look-alike); such frames are counted, not blamed.",
        "DESIGN.md section 4 C16",
    ),
    "C17": (
        "differential proptest: structural parser vs streaming decoder vs independent decoder, over encoder output, generator output and checksum-valid mutants",
        "exploration",
        "Each frame goes to Frame::read and, as a one-frame stream with the same STREAMINFO (unknown total), to the streaming "
        "decoder: accept/reject must agree; every subframe must expand to block-size samples; for frames whose values are all in "
        "range the parser's samples (decorrelation undone in the harness), the decoder's and the independent decoder's must be "
        "equal; when the independent parser establishes the premise (zero padding, minimal coded number) Frame::write must "
        "reproduce the bytes. Both build profiles.",
        "Out-of-range mutant frames are compared for acceptance only (their sample values are not defined by the format).",
        "DESIGN.md section 4 C17",
    ),
    "C13": (
        "exhaustive fault enumeration: every underlying write/seek/flush/read call index fails once, permanently or with Interrupted; short-write runs",
        "fault_enumeration",
        "For each scenario (encode + finalize through every writer front-end with/without seek table and declared/undeclared total, 1-8 channels, "
        "FlacStreamWriter, write_blocks over generated block lists, update_file in place and rebuilt incl. read faults on the "
        "original) a fault-free run counts the underlying operations, then every index fails in three ways and all writes are "
        "limited to 1/2/7 bytes: no unwind; either an error is reported or the bytes held by the underlying writer equal the "
        "fault-free result exactly. Every read-call index of every reader front-end, verify_reader, generate_seektable and "
        "BlockList::read fails likewise: the error is reported or the output is complete. Both build profiles.",
        "Faults are injected at the std::io call boundary of the object handed to the crate; metadata::update on a real path is not fault-injected.",
        "DESIGN.md section 4 C13",
    ),
    "C18": (
        "differential proptest: crate built with the rayon feature, run in thread pools of 1-16 workers with competing load, vs the serial build as oracle process",
        "exploration",
        "Cases biased to 2-8 channels and ties (identical / mirrored / silent channels) are encoded by a second harness build (crate "
        "feature rayon) inside dedicated pools of 1, 2, 3, 4, 8, 16 workers, three times each, with and without busy tasks competing "
        "in the same pool and with or without another encoder (other window / LPC order, same block length) having run on the same workers "
        "just before; music-like cases and clean-signal blocks of 4097-16384 samples are mixed in; output bytes or error must equal the serial build's, served by a child process of the plain harness "
        "binary. Interleavings are sampled (pool size x repetition x load), not enumerated: order-dependent reductions, shared-cache "
        "leaks and tie-breaking differences are caught when some pool size exposes them; a race confined to a rare interleaving can "
        "be missed.",
        "rayon's scheduler cannot be owned from outside; loom/shuttle would require replacing rayon's primitives.",
        "DESIGN.md section 4 C18",
    ),
}

NOT_YET = {}

PENDING_REASON = "check not built yet in this session (work in progress; see DESIGN.md section 4 for the planned check)"


def main():
    props = [json.loads(l) for l in open(os.path.join(VERIF, "properties.jsonl"))]
    checks = []
    na = []
    for p in props:
        pid = p["id"]
        if pid in CHECKS:
            tech, cat, text, note, ref = CHECKS[pid]
            checks.append({
                "property_id": pid,
                "quick_cmd": "./check %s --tier quick" % pid,
                "thorough_cmd": "./check %s --tier thorough" % pid,
                "evidence_file": "/verif/evidence/%s.json" % pid,
                "replay_cmd_template": "./check %s --replay {path}" % pid,
                "engine": "fv",
                "level_claimed": {"category": cat, "text": text, "design_ref": ref},
                "level_note": note,
                "technique": tech,
            })
        else:
            na.append({"property_id": pid, "reason": NOT_YET.get(pid, PENDING_REASON)})
    m = {
        "version": 1,
        "setup_cmd": "./check --build",
        "hooks": {
            "guard": "flac_codec_verif",
            "enable": "no source hooks are needed: every observation point is reachable through the public API; "
                      "checks build /repo as a path dependency of /verif/harness (profiles release and checked; feature rayon for C18)",
            "baseline_off_cmd": "cd /repo && cargo test --workspace --no-fail-fast --offline",
            "source_commits": [],
            "add_only": True,
        },
        "engines": [
            {"name": "fv", "path": "/verif/harness", "serves_properties": sorted(CHECKS.keys()),
             "kind_free_text": "Rust harness: proptest (fixed seed, sharded, shrinking) + exhaustive small-scope enumeration + "
                               "fault enumeration, independent RFC 9639 reference decoder/encoder as oracles; driver /verif/check"},
        ],
        "checks": checks,
        "notes": "Exit 0 = held on everything explored; 1 = VIOLATION lines; 2 = infrastructure problem. VERIF_SEED selects the "
                 "proptest seed; enumeration tiers are seed-independent. Known findings: /verif/known_findings.json.",
        "not_applicable": na,
    }
    with open(os.path.join(VERIF, "MANIFEST.json"), "w") as f:
        json.dump(m, f, indent=1)
        f.write("\n")


if __name__ == "__main__":
    main()
