#!/usr/bin/env python3
"""Regenerates /verif/MANIFEST.json from the table below (kept in one place so it stays valid)."""
import json
import os

VERIF = os.path.dirname(os.path.dirname(os.path.abspath(__file__)))

# id -> (technique, level category, level text, level note, design ref)
CHECKS = {
    "C01": (
        "exhaustive small-scope enumeration + proptest round-trip (encode, decode with all six readers)",
        "exploration",
        "Round-trip oracle over generated PCM x options x writer front-end x chunking: all vectors over {-2..2} up to length 8 "
        "(10 thorough) and {-1,0,1} to 12 in four configurations, the full grid lengths 1..64 x 40 signal shapes x block {16,32} x "
        "LPC {none,4,8,32} x partition order {0,2,6,15}, plus tens of thousands of random cases incl. blocks up to 65535, in the "
        "optimised and the overflow-checked profile. Held-on-everything-explored, not a proof.",
        "Trusts the harness PCM expansion and comparison code; the crate's own decoder is the inverse (C02 covers conformance).",
        "DESIGN.md section 4 C01",
    ),
}

NOT_YET = {}

PENDING_REASON = "check not built yet in this session (work in progress; see DESIGN.md section 4 for the planned check)"


def main():
    props = [json.loads(l) for l in open(os.path.join(VERIF, "properties.jsonl"))]
    checks = []
    na = []
    for p in props:
        pid = p["id"]
        if pid in CHECKS:
            tech, cat, text, note, ref = CHECKS[pid]
            checks.append({
                "property_id": pid,
                "quick_cmd": "./check %s --tier quick" % pid,
                "thorough_cmd": "./check %s --tier thorough" % pid,
                "evidence_file": "/verif/evidence/%s.json" % pid,
                "replay_cmd_template": "./check %s --replay {path}" % pid,
                "engine": "fv",
                "level_claimed": {"category": cat, "text": text, "design_ref": ref},
                "level_note": note,
                "technique": tech,
            })
        else:
            na.append({"property_id": pid, "reason": NOT_YET.get(pid, PENDING_REASON)})
    m = {
        "version": 1,
        "setup_cmd": "./check --build",
        "hooks": {
            "guard": "flac_codec_verif",
            "enable": "no source hooks are needed: every observation point is reachable through the public API; "
                      "checks build /repo as a path dependency of /verif/harness (profiles release and checked; feature rayon for C18)",
            "baseline_off_cmd": "cd /repo && cargo test --workspace --no-fail-fast --offline",
            "source_commits": [],
            "add_only": True,
        },
        "engines": [
            {"name": "fv", "path": "/verif/harness", "serves_properties": sorted(CHECKS.keys()),
             "kind_free_text": "Rust harness: proptest (fixed seed, sharded, shrinking) + exhaustive small-scope enumeration + "
                               "fault enumeration, independent RFC 9639 reference decoder/encoder as oracles; driver /verif/check"},
        ],
        "checks": checks,
        "notes": "Exit 0 = held on everything explored; 1 = VIOLATION lines; 2 = infrastructure problem. VERIF_SEED selects the "
                 "proptest seed; enumeration tiers are seed-independent. Known findings: /verif/known_findings.json.",
        "not_applicable": na,
    }
    with open(os.path.join(VERIF, "MANIFEST.json"), "w") as f:
        json.dump(m, f, indent=1)
        f.write("\n")


if __name__ == "__main__":
    main()
