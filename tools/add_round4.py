#!/usr/bin/env python3
"""add_round4.py <ID> <what_it_breaks> <detected_by> <first_try:yes|no> : folds seeded/<ID>/meta7.json
(the sub-agent's own record) into seeded/<ID>/meta.json as the round-4 entry."""
import json
import os
import sys

pid, what, detected, first = sys.argv[1:5]
d = os.path.join(os.path.dirname(os.path.abspath(__file__)), "..", "seeded", pid)
meta = json.load(open(os.path.join(d, "meta.json")))
sub = json.load(open(os.path.join(d, "meta7.json")))
meta["changes"] = [c for c in meta["changes"] if c.get("patch") != "patch7.diff"]
meta["changes"].append({
    "patch": "patch7.diff",
    "demonstration": "demo7.rs",
    "round": 4,
    "what_it_breaks": what,
    "needs_to_manifest": sub.get("needs", ""),
    "sub_agent_ran": sub.get("ran", ""),
    "confirmed": "tools/confirm_seeded.sh in the scratch worktree: demo passes on the unchanged tree; with the patch all 45 tests + 52 doc-tests pass and only the demo fails (confirm7.log)",
    "ran": "tools/try_seeded.sh /verif/seeded/%s/patch7.diff %s  (git -C /repo apply; ./check %s; git -C /repo checkout -- .)" % (pid, pid, pid),
    "detected_by": detected,
    "caught_on_first_attempt": first == "yes",
})
json.dump(meta, open(os.path.join(d, "meta.json"), "w"), indent=1)
open(os.path.join(d, "meta.json"), "a").write("\n")
os.remove(os.path.join(d, "meta7.json"))
