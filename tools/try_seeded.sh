#!/bin/bash
# try_seeded.sh <patch.diff> <ID> [more IDs...] : applies a seeded change to /repo, runs the quick checks, reverts.
PATCH=$1; shift
cd /repo || exit 2
if [ -n "$(git status --porcelain --untracked-files=no)" ]; then echo "/repo has local modifications"; exit 2; fi
git apply "$PATCH" || { echo "patch does not apply"; exit 2; }
trap 'git -C /repo checkout -q -- .' EXIT
cd /verif
for id in "$@"; do
  out=$(./check "$id" 2>&1); rc=$?
  echo "== $id exit=$rc"
  echo "$out" | grep -E "^VIOLATION|^  profile=|^C[0-9]+ tier|BUILD-FAILED|INFRA" | head -8
done
