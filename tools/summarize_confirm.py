#!/usr/bin/env python3
"""summarize_confirm.py <confirm.log>...: one line per confirmation log of tools/confirm_seeded.sh"""
import sys, re
for f in sys.argv[1:]:
    try:
        s = open(f).read()
    except OSError:
        print(f, "MISSING"); continue
    if "\ndone" not in s and not s.endswith("done\n"):
        print(f, "RUNNING"); continue
    a, _, b = s.partition("### apply patch")
    base_ok = "test result: ok" in a and "FAILED" not in a and "error" not in a
    applied = "applied" in b and "PATCH DOES NOT APPLY" not in b
    c = b.partition("### full suite + demo with the change")[2]
    # split per "Running" section
    secs = re.split(r"\n(?=\s*Running )", c)
    failed = [x.split("\n")[0].strip() for x in secs if "test result: FAILED" in x]
    ok = sum(x.count("test result: ok") for x in secs)
    only_demo = len(failed) == 1 and "demo_seeded" in failed[0]
    verdict = "CONFIRMED" if (base_ok and applied and only_demo) else "NOT-CONFIRMED"
    print(f"{f}: {verdict} base_ok={base_ok} applied={applied} ok_suites={ok} failed={failed}")
