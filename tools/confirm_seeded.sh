#!/bin/bash
# confirm_seeded.sh <worktree> <patch.diff> <demo.rs> <log>
# Confirms in a scratch worktree that a seeded change compiles, passes the existing tests, and that
# the demonstration fails with the change and passes without it.
WT=$1; PATCH=$2; DEMO=$3; LOG=$4
cd "$WT" || exit 2
git checkout -q -- . ; rm -f tests/demo_seeded.rs
cp "$DEMO" tests/demo_seeded.rs
{
echo "### demo on the unchanged tree"
cargo test --offline --test demo_seeded 2>&1 | grep -E "^test result|^test .*(ok|FAILED)$|error" | head -20
echo "### apply patch"
git apply "$PATCH" && echo applied || { echo "PATCH DOES NOT APPLY"; exit 1; }
echo "### full suite + demo with the change"
cargo test --offline --no-fail-fast 2>&1 | grep -E "^test result|FAILED|^error|Running" | head -60
} > "$LOG" 2>&1
git checkout -q -- . ; rm -f tests/demo_seeded.rs
echo done >> "$LOG"
